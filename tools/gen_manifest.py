#!/usr/bin/env python3
"""Regenerates /verif/MANIFEST.json from the table below (single source of truth)."""
import json, os, subprocess
HERE = os.path.dirname(os.path.dirname(os.path.abspath(__file__)))
ALL = [f"C{i:02d}" for i in range(1, 19)]
CHECKS = {}
exec(open(os.path.join(HERE, "tools", "manifest_table.py")).read())
props = {json.loads(l)["id"] for l in open(os.path.join(HERE, "properties.jsonl"))}
checks = []
for pid in ALL:
    if pid not in CHECKS:
        continue
    c = CHECKS[pid]
    checks.append({
        "property_id": pid,
        "quick_cmd": f"./run_check.sh {pid} quick",
        "thorough_cmd": f"./run_check.sh {pid} thorough",
        "evidence_file": f"evidence/{pid}.json",
        "replay_cmd_template": "./run_check.sh --replay {path}",
        "engine": c.get("engine", "symex"),
        "level_claimed": {"category": c["level"], "text": c["text"], "design_ref": c["design_ref"]},
        "level_note": c["note"],
        "technique": c["technique"],
    })
na = [{"property_id": p, "reason": NOT_APPLICABLE.get(p, "check not built yet in this session (planned, see DESIGN.md section 5)")} for p in ALL if p not in CHECKS]
fix_commits = FIX_COMMITS
man = {
    "version": 1,
    "setup_cmd": "./setup.sh",
    "hooks": {
        "guard": "NUMBA_SCFG_VERIF",
        "enable": "no hook is compiled into /repo: checks import numba_scfg from /repo's working tree as it is; NUMBA_SCFG_VERIF is read by nothing",
        "baseline_off_cmd": "cd /repo && /venv/bin/python -m pytest -ra -q -p no:cacheprovider --timeout=900 --continue-on-collection-errors",
        "source_commits": fix_commits,
        "add_only": True,
    },
    "engines": ENGINES,
    "checks": checks,
    "notes": NOTES,
    "not_applicable": na,
}
json.dump(man, open(os.path.join(HERE, "MANIFEST.json"), "w"), indent=1)
print("wrote MANIFEST.json with", len(checks), "checks;", len(na), "not applicable")

FIX_COMMITS = []
NOTES = ("Technique family: solver-based checking of the real code. Inputs are z3 constraint systems; the real functions of /repo run natively "
         "under a path-wise symbolic execution engine (vf/engine.py); a bound is claimed only when the solver refuted every unexplored branch. "
         "Exit codes: 0 held on everything explored, 1 VIOLATION (replayed engine-free first), 2 harness error (never a violation).")
ENGINES = [
    {"name": "symex", "path": "vf/engine.py", "serves_properties": [], "kind_free_text":
     "path-wise symbolic execution of the real Python code over z3 (SymInt/SymBool proxies, DFS by re-execution, push/pop frames, cube split over 16 workers)"},
]
NOT_APPLICABLE = {}
CHECKS["C02"] = dict(
    level="model_checking",
    text=("Bounded exhaustive symbolic exploration: every closed CFG with <= 4 blocks under every labelling and every 5-block CFG with entry b0 (quick), "
          "all labellings at N=5 plus budgeted 6/7-block families (thorough); each stage prefix and restructure() must return without exception and terminate. "
          "Exhaustion is a solver verdict (all unexplored decisions refuted), cross-checked against an independent brute-force count."),
    design_ref="DESIGN.md section 5 C02, section 3 S1",
    note="closed CFG = DESIGN section 9; nothing claimed beyond the block bound; z3 5.1.0 trusted for unsat answers (mitigated by the brute-force count self-test)",
    technique="bounded symbolic execution of the real code with z3 (solver-enumerated input space, exhaustive within N<=5)",
)

FIX_COMMITS = []
NOTES = ("Technique family: solver-based checking of the real code. Inputs are z3 constraint systems; the real functions of /repo run natively "
         "under a path-wise symbolic execution engine (vf/engine.py); a bound is claimed only when the solver refuted every unexplored branch. "
         "Exit codes: 0 held on everything explored, 1 VIOLATION (replayed engine-free first), 2 harness error (never a violation).")
ENGINES = [
    {"name": "symex", "path": "vf/engine.py", "serves_properties": [], "kind_free_text":
     "path-wise symbolic execution of the real Python code over z3 (SymInt/SymBool proxies, DFS by re-execution, push/pop frames, cube split over 16 workers)"},
]
NOT_APPLICABLE = {}
CHECKS["C02"] = dict(
    level="model_checking",
    text=("Bounded exhaustive symbolic exploration: every closed CFG with <= 4 blocks under every labelling and every 5-block CFG with entry b0 (quick), "
          "all labellings at N=5 plus budgeted 6/7-block families (thorough); each stage prefix and restructure() must return without exception and terminate. "
          "Exhaustion is a solver verdict (all unexplored decisions refuted), cross-checked against an independent brute-force count."),
    design_ref="DESIGN.md section 5 C02, section 3 S1",
    note="closed CFG = DESIGN section 9; nothing claimed beyond the block bound; z3 5.1.0 trusted for unsat answers (mitigated by the brute-force count self-test)",
    technique="bounded symbolic execution of the real code with z3 (solver-enumerated input space, exhaustive within N<=5)",
)
FIX_COMMITS += ["7ee04ab", "decdc60", "30ed493", "147027b"]
_S1_NOTE = ("closed CFG = DESIGN section 9 (<= 2 ordered distinct successors, unique entry without predecessor, all blocks reach an exit); nothing claimed beyond the "
            "block bound of each job; z3 5.1.0 trusted for unsat answers (mitigated: path counts 60 / 3,816 / 88,680 must equal an independent brute-force or recorded count)")
_S1_TECH = "bounded symbolic execution of the real code with z3 (solver-enumerated closed CFGs, exhaustive for N<=5; oracle evaluated per path)"
CHECKS["C01"] = dict(level="model_checking", design_ref="DESIGN.md section 5 C01, 4.2", note=_S1_NOTE, technique=_S1_TECH + "; inner quantifier over decision sequences by complete product search",
    text=("Every closed CFG with <= 4 blocks (all labellings) and every 5-block CFG with entry b0 (quick; all labellings + 6/7-block families in thorough): after each stage prefix the "
          "product of the original graph with the result (position, control valuation, expected original block) is searched completely, once following blocks' own targets and once "
          "region by region (declared header / exiting / region targets). Covers all decision sequences of unbounded length for each explored graph."))
CHECKS["C03"] = dict(level="model_checking", design_ref="DESIGN.md section 5 C03", note=_S1_NOTE, technique=_S1_TECH,
    text=("Same bounded-exhaustive S1 exploration; the definition of 'structured' is checked as such at every level of the result (acyclic without back edges, one latch per loop "
          "region with a single back edge to the header, input cycles inside one loop region, head/branch/tail discipline)."))
CHECKS["C04"] = dict(level="model_checking", design_ref="DESIGN.md section 5 C04", note=_S1_NOTE, technique=_S1_TECH,
    text=("Same bounded-exhaustive S1 exploration after each stage prefix; every level is checked for unique names, header/exiting membership, scope of every target and back edge, "
          "entry only at the header and exit only from the exiting block, region targets equal to the exiting chain's targets, parent bookkeeping."))
CHECKS["C05"] = dict(level="model_checking", design_ref="DESIGN.md section 5 C05", note=_S1_NOTE, technique=_S1_TECH,
    text=("Same bounded-exhaustive S1 exploration x three payload types x stage prefixes: every input block occurs exactly once as a leaf of the same type with identical payload, arity and "
          "successor positions (renamed only to blocks/regions that did not exist in the input); everything added is synthetic or a region."))
CHECKS["C06"] = dict(level="model_checking", design_ref="DESIGN.md section 5 C06", note=_S1_NOTE, technique=_S1_TECH + "; all paths per graph by complete search of reachable control valuations",
    text=("Same bounded-exhaustive S1 exploration x stage prefixes; static table/target agreement for every branching synthetic block plus a complete search of (block, control valuation "
          "with freshness bits): unset, stale or out-of-range control variables are found on any path, executed or not."))
CHECKS["C13"] = dict(level="model_checking", design_ref="DESIGN.md section 5 C13, section 3 S4",
    note="S4 digraphs: N blocks + one external name, ordered slots, duplicates and self loops allowed; preconditions listed in the evidence file (unique head for find_head, >= 1 entry for dominators)",
    technique="bounded symbolic execution of the real query functions with z3 (solver-enumerated digraphs), compared with definitional oracles for all pairs and all subsets",
    text=("Every digraph with <= 2 blocks x 3 slots, 3 blocks x 2 slots, and 3x3 / 4x2 with an edge cap (quick; full 3x3 and 4x2 in thorough): SCCs, reachability, head, headers/entries, "
          "exiting/exits for ALL subsets, dominators, post-dominators and immediate dominators must equal oracles computed from the definitions (Warshall closure, node-removal reachability)."))
CHECKS["C14"] = dict(level="model_checking", design_ref="DESIGN.md section 5 C14, section 3 S5/S6",
    note="pre-states with pairwise distinct successors; documented preconditions of each primitive are listed in the evidence file; sequences are covered inductively (every op from every explored pre-state) plus explicit length-2 sequences",
    technique="bounded symbolic execution of the real edit primitives with z3 (solver-enumerated pre-states incl. restructured hierarchies), all P/S choices per pre-state, arc-level specification + product search",
    text=("Pre-states: every graph of <= 3 plain blocks with optional declared back edges, and every level of every restructured closed CFG (regions, latches, branching synthetic blocks); "
          "all predecessor sets and successor lists of size <= 2 x {insert_Synthetic*, insert_block_and_control_blocks, join_returns, join_tails_and_exits} are compared with an arc-level "
          "specification; the control-block variant additionally by arc-wise path preservation, also after a second insertion."))
CHECKS["C16"] = dict(level="model_checking", design_ref="DESIGN.md section 5 C16", note=_S1_NOTE, technique=_S1_TECH,
    text=("Same bounded-exhaustive S1 exploration x stage prefixes {none, closed, loops, branches}: list(scfg) and the concealed view of the top graph and of every sub-region are compared "
          "with the hierarchy itself (exactly once, head first, predecessors first)."))
CHECKS["C17"] = dict(level="model_checking", design_ref="DESIGN.md section 5 C17", note=_S1_NOTE + "; only Digraph.source is read",
    technique=_S1_TECH + "; emitted DOT parsed by an independent tokenizer/parser",
    text=("Bounded-exhaustive S1 exploration (N<=4 all labellings, N=5 entry b0 with <= 7 edges in quick) x {plain, AST payload} x stage prefixes: the DOT text is parsed and compared with "
          "the hierarchy: nodes, nested clusters, solid/dashed edges to resolved headers, label contents."))
for _p in ("C01", "C02", "C03", "C04", "C05", "C06", "C13", "C14", "C16", "C17"):
    ENGINES[0]["serves_properties"].append(_p)
FIX_COMMITS += ["a408d5d", "4af2cd3", "a837463", "94bbe43", "e86b72a", "b60ae27", "c0f1ca4"]
_S2_NOTE = ("programs of the bounded grammar S2 only (compound statements <= 2, nesting <= 2, expression depth <= 2 in quick); integer arguments in stated ranges, external-call "
            "results arbitrary integers, unwinding cap 8 external calls; known findings D10-D12 (evaluation order of nested and/or, for-target after an empty iterable) are "
            "listed in known_findings.json with structural signatures")
CHECKS["C07"] = dict(level="translation_validation", design_ref="DESIGN.md section 5 C07, section 3 S2", note=_S2_NOTE,
    technique="symbolic execution of original and regenerated function under one path condition (z3); per-path solver query result_orig != result_regen must be unsat; solver-enumerated program grammar",
    text=("Every program of the bounded grammar (control skeletons with external-call tests, argument tests incl. not / attribute / subscript, every expression form in every "
          "test/value position, for-target programs) goes through AST2SCFG, restructure, SCFG2AST, unparse, compile; the original and the regenerated function are then BOTH run "
          "symbolically on the same symbolic arguments and external-call results. Per path the solver refutes a different result; exception types and external-call logs "
          "(sites and argument terms) must agree. Any pipeline exception other than NotImplementedError is a violation."))
CHECKS["C08"] = dict(level="translation_validation", design_ref="DESIGN.md section 5 C08", note=_S2_NOTE + "; the block interpreter is part of the harness (vf/s2.py BlockProgram) and follows the property text",
    technique="symbolic execution of the original function next to a block interpreter over the real CFG (z3 equivalence query per path) + static statement census",
    text=("Same program space; the CFG built by AST2SCFGTransformer (pruned and unpruned) is interpreted block by block next to the original function on symbolic arguments and "
          "external-call results: result (solver query), exception type and call order must agree on every path; a static census checks that each reachable statement sits in "
          "exactly one block and that pruning removed only unreachable blocks, no-ops and empty blocks."))
CHECKS["C09"] = dict(level="model_checking", design_ref="DESIGN.md section 5 C09, section 3 S3",
    note="CPython 3.12 only (3.11 has no repo dependencies installed); no exception tables / generators; ground truth from dis and opcode of the running interpreter",
    technique="bounded symbolic execution of the real bytecode front end with z3 (solver-enumerated instruction streams: opcode class and jump target variables, validity as a formula) + compiled grammar programs",
    text=("Every instruction stream of <= 4 instructions (5-6 in thorough) over every jump/return opcode of the running interpreter and non-jump opcodes with 0/1/4 inline cache "
          "entries, with every direction-respecting target pattern, plus every compiled program of the S2 grammar: blocks must tile the code, contain no inner jump target or "
          "jump, and have exactly the successors dis/opcode prescribe (fall-through first); building never fails."))
CHECKS["C10"] = dict(level="translation_validation", design_ref="DESIGN.md section 5 C10", note=_S2_NOTE + "; refusals (NotImplementedError) are counted, not censused; finding D13 (builtins iter/next) listed",
    technique="solver-enumerated programs and closed CFGs with AST payloads; static census of the generated ast.FunctionDef by node identity",
    text=("For every S2 program accepted by the pipeline and, independently, every restructured closed CFG (N <= 4) with AST payloads: each statement object of each original block "
          "occurs exactly once in the output tree, the multiset of control-variable assignments equals that of the SyntheticAssignment blocks, each branching test occurs once as an "
          "if-condition, latch and branch tests are all present, output unparses and compiles, introduced names are reserved ones."))
CHECKS["C11"] = dict(level="model_checking", design_ref="DESIGN.md section 5 C11", note="supported set taken from the property text and the dispatcher; statement classes without a template are reported as not covered",
    technique="finite z3-enumerated case space (statement class x position x depth x input form) executed on the real entry points; exhausted",
    text=("Every ast.stmt subclass of the running interpreter outside the supported set (and a nested def) at 9 structural positions x 2 depths x {source string, AST list}, plus 12 "
          "non-function inputs: AST2SCFG must raise NotImplementedError and nothing else."))
CHECKS["C12"] = dict(level="model_checking", design_ref="DESIGN.md section 5 C12, 2.3",
    note="hash seed modelled as iteration order of string sets via an import hook over /repo's source; single-event perturbations + global reversal; divergences confirmed with real PYTHONHASHSEED values before being reported",
    technique="symbolic schedule: every dynamic set-iteration event of the real code is a decision point (import-hook rewriting), all single-event perturbations explored per solver-enumerated input; confirmation by real hash seeds",
    text=("For every closed CFG with <= 4 blocks (N=5 family in thorough), S2 programs through the source pipeline and compiled functions through the bytecode pipeline: the result "
          "under every single-event permutation of set iteration order and under global reversal must equal the ascending baseline in a dump sensitive to names and dict order."))
CHECKS["C15"] = dict(level="model_checking", design_ref="DESIGN.md section 5 C15", note=_S1_NOTE + "; AST-payload graphs are outside the claim (no dictionary form)",
    technique=_S1_TECH,
    text=("Every closed CFG with <= 4 blocks (N=5 in thorough) x {plain, bytecode payload} x stage prefix {none, closed, loops, branches}, plus bytecode-derived graphs: to_dict/"
          "to_yaml must not raise; the re-read graph must equal the original in types, payload, successor order, back edges, tables, assignments, nesting, headers, exiting, parent; "
          "second write equals the first; chain write-read-write-read."))
CHECKS["C18"] = dict(level="model_checking", design_ref="DESIGN.md section 5 C18, 2.2",
    note="(a) kind strings <= 10 chars, indices <= 999; str(int) modelled by true facts (regular language + injectivity); translator validated against the real methods on every run; (c) names observed by wrapping the generator methods in the harness process",
    technique="source-to-SMT translation of NameGenerator methods (z3 strings/arrays, 12 obligations: counter step, dependence, pairwise injectivity) + bounded symbolic execution of request sequences and reload histories",
    text=("(a) the three name methods are translated from the current source to z3 and the inductive freshness step is proved for all kinds/counters within the bound; (b) all request "
          "sequences of length 3 (4 thorough) over adversarial kinds incl. sub-graph creation; (c) every closed CFG (N <= 4) x 5 naming schemes inside the generator's namespace x "
          "write/read round trip before any stage: every name issued during a stage differs from all names present before it and from all names issued earlier."))
ENGINES.append({"name": "astsmt", "path": "vf/astsmt.py", "serves_properties": ["C18"], "kind_free_text": "source-to-SMT translation (inspect + ast -> z3 strings/arrays) of loop-free leaf methods"})
ENGINES.append({"name": "ndorder", "path": "vf/ndorder.py", "serves_properties": ["C12"], "kind_free_text": "import hook over /repo's source turning set-iteration order into a schedule"})
for _p in ("C07", "C08", "C09", "C10", "C11", "C12", "C15", "C18"):
    ENGINES[0]["serves_properties"].append(_p)

FIX_COMMITS += ["884e9ec", "8882d88", "e44ca7b", "fd434c6"]

# ---- round-3/4 extensions (DESIGN section 3.1): appended to the claims so that the manifest says what the commands do now
_EXT = {
    "C01": " Also: names sorting after / among the generated ones, names inside the generator's namespace, routes through a dictionary / YAML round trip between stages, a written-and-read-back copy restructured next to the original (alias route), graphs derived from source and bytecode families (loops ending a branch arm, multi-exit loops followed by branching code), and one edit step from a directly built state with a branching synthetic predecessor (space C: every value-table surjection, adversarial target names, used name generators) read through a walk map. A stage that raises is reported here too.",
    "C02": " Also: parametric scale families with a solver-chosen size (chains to 1,100 blocks, diamond chains to 36, nested loops, loop sequences, ladders) for the 'terminates' half, and reload routes.",
    "C03": " Also: the continuations a region really has (targets of its inner blocks that lie outside it) must be declared by it; name schemes, reload routes, source/bytecode-derived families as C01.",
    "C04": " Also: name schemes, reload and alias routes (name clashes after a round trip between stages), source/bytecode-derived families as C01.",
    "C05": " Also: name schemes incl. the generator's namespace with indices of different digit counts, reload routes, source/bytecode-derived families as C01.",
    "C06": " Also: edit-step space C (tables after every primitive with a branching synthetic predecessor), alias route (tables of the source graph after a copy was restructured), name schemes and routes as C01.",
    "C07": " Also: bodies in which a loop / if ends an arm, loop-in-arm and multi-exit-loop-then-branching families, names bound only in dead code (finding D18), and the round trip through the other input forms / repeated in the same process.",
    "C08": " Also: the same added program families as C07, and the graph obtained through the source-string and function-object forms, each converted twice in the process.",
    "C09": " Also: EXTENDED_ARG prefixes in the streams (a solver boolean per instruction under a cardinality cap) and compiled functions whose jumps / constants need them.",
    "C10": " Also: a second generation from the same graph and a generation through one SCFG2ASTTransformer object shared by all programs of a worker process; the added program families of C07.",
    "C12": " Also: keyed sorted/min/max and reduce as iteration sites, name schemes without digits / with shared indices / differing in zero padding, the shape-directed family 'two headers entered from two blocks' (N=5).",
    "C13": " Also: digraphs whose blocks declare a back edge (queries defined over the remaining arcs) and live-object histories: one SCFG object edited into the next digraph through its public mapping and through add_block/remove_blocks, queried after each edit.",
    "C14": " Also: space C - a directly built branching synthetic predecessor (3 block types, every surjective value table, target names in every order relative to each other and to generated names, generated-looking feeder names with indices of different digit counts, name generator counters at 0/8/9) x every primitive x every ordered successor selection, control insertion twice.",
    "C15": " Also: numeric and z names, consistency of the re-read hierarchy (C04 oracle), and no state shared between source graph, dictionary and re-read graph (the copy is restructured further, the source must not change).",
    "C16": " Also: flat hand-built digraphs with doubled arcs and self loops, name schemes and reload routes as C01.",
    "C17": " Also: name schemes and reload routes as C01; several graphs per process (renderer state between calls shows through the history-aware replay).",
    "C18": "",
}
for _p, _t in _EXT.items():
    CHECKS[_p]["text"] += _t

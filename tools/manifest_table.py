FIX_COMMITS = []
NOTES = ("Technique family: solver-based checking of the real code. Inputs are z3 constraint systems; the real functions of /repo run natively "
         "under a path-wise symbolic execution engine (vf/engine.py); a bound is claimed only when the solver refuted every unexplored branch. "
         "Exit codes: 0 held on everything explored, 1 VIOLATION (replayed engine-free first), 2 harness error (never a violation).")
ENGINES = [
    {"name": "symex", "path": "vf/engine.py", "serves_properties": [], "kind_free_text":
     "path-wise symbolic execution of the real Python code over z3 (SymInt/SymBool proxies, DFS by re-execution, push/pop frames, cube split over 16 workers)"},
]
NOT_APPLICABLE = {}
CHECKS["C02"] = dict(
    level="model_checking",
    text=("Bounded exhaustive symbolic exploration: every closed CFG with <= 4 blocks under every labelling and every 5-block CFG with entry b0 (quick), "
          "all labellings at N=5 plus budgeted 6/7-block families (thorough); each stage prefix and restructure() must return without exception and terminate. "
          "Exhaustion is a solver verdict (all unexplored decisions refuted), cross-checked against an independent brute-force count."),
    design_ref="DESIGN.md section 5 C02, section 3 S1",
    note="closed CFG = DESIGN section 9; nothing claimed beyond the block bound; z3 5.1.0 trusted for unsat answers (mitigated by the brute-force count self-test)",
    technique="bounded symbolic execution of the real code with z3 (solver-enumerated input space, exhaustive within N<=5)",
)
FIX_COMMITS += ["7ee04ab", "decdc60", "30ed493", "147027b"]
_S1_NOTE = ("closed CFG = DESIGN section 9 (<= 2 ordered distinct successors, unique entry without predecessor, all blocks reach an exit); nothing claimed beyond the "
            "block bound of each job; z3 5.1.0 trusted for unsat answers (mitigated: path counts 60 / 3,816 / 88,680 must equal an independent brute-force or recorded count)")
_S1_TECH = "bounded symbolic execution of the real code with z3 (solver-enumerated closed CFGs, exhaustive for N<=5; oracle evaluated per path)"
CHECKS["C01"] = dict(level="model_checking", design_ref="DESIGN.md section 5 C01, 4.2", note=_S1_NOTE, technique=_S1_TECH + "; inner quantifier over decision sequences by complete product search",
    text=("Every closed CFG with <= 4 blocks (all labellings) and every 5-block CFG with entry b0 (quick; all labellings + 6/7-block families in thorough): after each stage prefix the "
          "product of the original graph with the result (position, control valuation, expected original block) is searched completely, once following blocks' own targets and once "
          "region by region (declared header / exiting / region targets). Covers all decision sequences of unbounded length for each explored graph."))
CHECKS["C03"] = dict(level="model_checking", design_ref="DESIGN.md section 5 C03", note=_S1_NOTE, technique=_S1_TECH,
    text=("Same bounded-exhaustive S1 exploration; the definition of 'structured' is checked as such at every level of the result (acyclic without back edges, one latch per loop "
          "region with a single back edge to the header, input cycles inside one loop region, head/branch/tail discipline)."))
CHECKS["C04"] = dict(level="model_checking", design_ref="DESIGN.md section 5 C04", note=_S1_NOTE, technique=_S1_TECH,
    text=("Same bounded-exhaustive S1 exploration after each stage prefix; every level is checked for unique names, header/exiting membership, scope of every target and back edge, "
          "entry only at the header and exit only from the exiting block, region targets equal to the exiting chain's targets, parent bookkeeping."))
CHECKS["C05"] = dict(level="model_checking", design_ref="DESIGN.md section 5 C05", note=_S1_NOTE, technique=_S1_TECH,
    text=("Same bounded-exhaustive S1 exploration x three payload types x stage prefixes: every input block occurs exactly once as a leaf of the same type with identical payload, arity and "
          "successor positions (renamed only to blocks/regions that did not exist in the input); everything added is synthetic or a region."))
CHECKS["C06"] = dict(level="model_checking", design_ref="DESIGN.md section 5 C06", note=_S1_NOTE, technique=_S1_TECH + "; all paths per graph by complete search of reachable control valuations",
    text=("Same bounded-exhaustive S1 exploration x stage prefixes; static table/target agreement for every branching synthetic block plus a complete search of (block, control valuation "
          "with freshness bits): unset, stale or out-of-range control variables are found on any path, executed or not."))
CHECKS["C13"] = dict(level="model_checking", design_ref="DESIGN.md section 5 C13, section 3 S4",
    note="S4 digraphs: N blocks + one external name, ordered slots, duplicates and self loops allowed; preconditions listed in the evidence file (unique head for find_head, >= 1 entry for dominators)",
    technique="bounded symbolic execution of the real query functions with z3 (solver-enumerated digraphs), compared with definitional oracles for all pairs and all subsets",
    text=("Every digraph with <= 2 blocks x 3 slots, 3 blocks x 2 slots, and 3x3 / 4x2 with an edge cap (quick; full 3x3 and 4x2 in thorough): SCCs, reachability, head, headers/entries, "
          "exiting/exits for ALL subsets, dominators, post-dominators and immediate dominators must equal oracles computed from the definitions (Warshall closure, node-removal reachability)."))
CHECKS["C14"] = dict(level="model_checking", design_ref="DESIGN.md section 5 C14, section 3 S5/S6",
    note="pre-states with pairwise distinct successors; documented preconditions of each primitive are listed in the evidence file; sequences are covered inductively (every op from every explored pre-state) plus explicit length-2 sequences",
    technique="bounded symbolic execution of the real edit primitives with z3 (solver-enumerated pre-states incl. restructured hierarchies), all P/S choices per pre-state, arc-level specification + product search",
    text=("Pre-states: every graph of <= 3 plain blocks with optional declared back edges, and every level of every restructured closed CFG (regions, latches, branching synthetic blocks); "
          "all predecessor sets and successor lists of size <= 2 x {insert_Synthetic*, insert_block_and_control_blocks, join_returns, join_tails_and_exits} are compared with an arc-level "
          "specification; the control-block variant additionally by arc-wise path preservation, also after a second insertion."))
CHECKS["C16"] = dict(level="model_checking", design_ref="DESIGN.md section 5 C16", note=_S1_NOTE, technique=_S1_TECH,
    text=("Same bounded-exhaustive S1 exploration x stage prefixes {none, closed, loops, branches}: list(scfg) and the concealed view of the top graph and of every sub-region are compared "
          "with the hierarchy itself (exactly once, head first, predecessors first)."))
CHECKS["C17"] = dict(level="model_checking", design_ref="DESIGN.md section 5 C17", note=_S1_NOTE + "; only Digraph.source is read",
    technique=_S1_TECH + "; emitted DOT parsed by an independent tokenizer/parser",
    text=("Bounded-exhaustive S1 exploration (N<=4 all labellings, N=5 entry b0 with <= 7 edges in quick) x {plain, AST payload} x stage prefixes: the DOT text is parsed and compared with "
          "the hierarchy: nodes, nested clusters, solid/dashed edges to resolved headers, label contents."))
for _p in ("C01", "C02", "C03", "C04", "C05", "C06", "C13", "C14", "C16", "C17"):
    ENGINES[0]["serves_properties"].append(_p)

#!/usr/bin/env python3
"""Validate MANIFEST.json and every evidence file against the schemas (run with python3-vt)."""
import json, glob, sys, jsonschema
ok = True
def v(path, schema):
    global ok
    try:
        jsonschema.validate(json.load(open(path)), json.load(open(schema)))
        print("valid  ", path)
    except Exception as e:
        ok = False
        print("INVALID", path, str(e)[:300])
v("MANIFEST.json", "/root/.vp/MANIFEST.schema.json")
for p in sorted(glob.glob("evidence/*.json")):
    v(p, "/root/.vp/EVIDENCE.schema.json")
sys.exit(0 if ok else 1)

#!/bin/sh
# usage: tools/run_all.sh [quick|thorough] [ids...]  - every registered check in turn against /repo's working tree; writes the registered evidence
cd "$(dirname "$0")/.."
TIER=${1:-quick}; shift 2>/dev/null
IDS=${*:-C01 C02 C03 C04 C05 C06 C07 C08 C09 C10 C11 C12 C13 C14 C15 C16 C17 C18}
mkdir -p /tmp/run_all_logs
for c in $IDS; do
  t0=$(date +%s)
  ./run_check.sh $c $TIER > /tmp/run_all_logs/$c.$TIER.log 2>&1; rc=$?
  echo "$c $TIER rc=$rc wall=$(( $(date +%s) - t0 ))s violations=$(grep -c '^VIOLATION' /tmp/run_all_logs/$c.$TIER.log) known=$(grep -c '^KNOWN-FINDING' /tmp/run_all_logs/$c.$TIER.log)"
done

#!/usr/bin/env python3
"""Prints the markdown table of seeded changes for DESIGN.md section 14 from seeded/*/meta.json."""
import json, os
HERE = os.path.dirname(os.path.dirname(os.path.abspath(__file__)))
rows = []
for d in sorted(os.listdir(os.path.join(HERE, "seeded"))):
    mp = os.path.join(HERE, "seeded", d, "meta.json")
    if not os.path.exists(mp):
        continue
    m = json.load(open(mp))
    runs = {r["check"]: r for r in m.get("runs", [])}
    caught = ", ".join(f"{c} ({'; '.join(runs[c]['signatures'][:2])})" if c in runs and runs[c]["signatures"] else c for c in m.get("caught_by", []))
    missed = ", ".join(r["check"] + (" (exit %d)" % r["exit"] if r["exit"] not in (0, 1) else "") for r in m.get("runs", []) if r["exit"] != 1)
    rows.append(f"| {d} | {m['breaks_property']} | {m.get('summary', '').replace('|', '/')} | {caught or '-'} | {missed or '-'} |")
print("| seeded change | property | what it does / needs | caught by (quick tier; first signatures) | run and not caught by |")
print("|---|---|---|---|---|")
print("\n".join(rows))

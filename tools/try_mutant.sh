#!/bin/sh
# usage: tools/try_mutant.sh <patch.diff> <Cxx> [<Cyy> ...]
# Applies the patch in a scratch worktree of /repo HEAD (never in /repo itself, so runs can overlap), points the
# checks at it through PYTHONPATH, runs the quick (or $TIER) checks, removes the worktree.
# prints one line per check: <id> rc=<exit> violations=<n> <signatures>
P="$(readlink -f "$1")"; shift
WT=/tmp/mutwt_$$
git -C /repo worktree add -q "$WT" HEAD || exit 9
trap 'git -C /repo worktree remove --force "$WT" >/dev/null 2>&1; rm -rf /tmp/mut_ev_$$' EXIT INT TERM
( cd "$WT" && git apply "$P" ) || { echo "patch does not apply"; exit 9; }
cd /verif
mkdir -p /tmp/mut_ev_$$
for c in "$@"; do
  PYTHONPATH="$WT" VERIF_STOP_ON_FAIL=1 VERIF_EVIDENCE_DIR=/tmp/mut_ev_$$ ./run_check.sh $c ${TIER:-quick} > /tmp/mut_ev_$$/$c.log 2>&1; rc=$?
  echo "$c rc=$rc violations=$(grep -c '^VIOLATION' /tmp/mut_ev_$$/$c.log) $(grep -o 'exhaustive=[A-Za-z]* violations' /tmp/mut_ev_$$/$c.log | tail -1 | cut -d' ' -f1) $(grep -A1 '^VIOLATION' /tmp/mut_ev_$$/$c.log | grep signature | head -3 | tr '\n' ' ' | cut -c1-260)"
done

#!/bin/sh
# usage: tools/try_mutant.sh <patch.diff> <Cxx> [<Cyy> ...]   - applies the patch to /repo, runs the quick checks, ALWAYS reverts
# prints one line per check: <id> rc=<exit> <VIOLATION lines count>
P="$(readlink -f "$1")"; shift
cd /repo || exit 9
if [ -n "$(git status --porcelain)" ]; then echo "repo not clean"; exit 9; fi
git apply "$P" || { echo "patch does not apply"; exit 9; }
trap 'git -C /repo checkout -- . >/dev/null 2>&1' EXIT INT TERM
cd /verif
mkdir -p /tmp/mut_ev
for c in "$@"; do
  cp evidence/$c.json /tmp/mut_ev/$c.json.bak 2>/dev/null
  ./run_check.sh $c ${TIER:-quick} > /tmp/mut_ev/$c.log 2>&1; rc=$?
  cp /tmp/mut_ev/$c.json.bak evidence/$c.json 2>/dev/null
  echo "$c rc=$rc violations=$(grep -c '^VIOLATION' /tmp/mut_ev/$c.log) $(grep -A1 '^VIOLATION' /tmp/mut_ev/$c.log | grep signature | head -3 | tr '\n' ' ' | cut -c1-260)"
done

#!/usr/bin/env python3
"""Regenerates the table of seeded changes in DESIGN.md section 14 from seeded/*/meta.json."""
import os, subprocess, re
HERE = os.path.dirname(os.path.dirname(os.path.abspath(__file__)))
tab = subprocess.run(["python3", os.path.join(HERE, "tools", "seed_table.py")], capture_output=True, text=True).stdout.strip()
p = os.path.join(HERE, "DESIGN.md")
s = open(p).read()
B, E = "<!-- seeded-table-begin -->", "<!-- seeded-table-end -->"
block = B + "\n" + tab + "\n" + E
if "@@TABLE@@" in s:
    s = s.replace("@@TABLE@@", block)
else:
    s = re.sub(re.escape(B) + r".*?" + re.escape(E), lambda m: block, s, flags=re.S)
open(p, "w").write(s)
print("table rows:", tab.count("\n") - 1)

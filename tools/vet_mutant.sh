#!/bin/sh
# usage: tools/vet_mutant.sh <dir with patch.diff demo.py notes.md> <seed id e.g. C11-m1> <property id>
# Confirms in a scratch worktree: patch applies, 82 tests pass with it, demo fails with it and passes without it.
# Then stores it as /verif/seeded/<seed id>/ (patch.diff, demo.py, notes.md, meta.json).
SRC="$1"; ID="$2"; PROP="$3"
WT=/tmp/vet_$$
git -C /repo worktree add -q "$WT" HEAD || exit 9
trap 'git -C /repo worktree remove --force "$WT" >/dev/null 2>&1' EXIT INT TERM
cd "$WT"
PYTHONPATH="$WT" timeout 300 /venv/bin/python "$SRC/demo.py" >/tmp/vet_clean.log 2>&1; rc_clean=$?
git apply "$SRC/patch.diff" || { echo "$ID: patch does not apply"; exit 1; }
tests=$(/venv/bin/python -m pytest -q -p no:cacheprovider 2>&1 | tail -1)
PYTHONPATH="$WT" timeout 300 /venv/bin/python "$SRC/demo.py" >/tmp/vet_mut.log 2>&1; rc_mut=$?
echo "$ID: demo clean rc=$rc_clean, mutated rc=$rc_mut, tests: $tests"
case "$tests" in *"82 passed"*) ok_tests=1;; *) ok_tests=0;; esac
if [ $rc_clean -eq 0 ] && [ $rc_mut -ne 0 ] && [ $ok_tests -eq 1 ]; then
  mkdir -p /verif/seeded/$ID
  cp "$SRC/patch.diff" "$SRC/demo.py" /verif/seeded/$ID/
  [ -f "$SRC/notes.md" ] && cp "$SRC/notes.md" /verif/seeded/$ID/
  python3 - "$ID" "$PROP" "$tests" "$rc_clean" "$rc_mut" <<'PY'
import json, sys
i, p, t, rc, rm = sys.argv[1:]
json.dump({"id": i, "breaks_property": p, "origin": "sub-agent given only the property text and a scratch worktree",
           "confirmed": {"tests_with_change": t.strip(), "demo_rc_unchanged": int(rc), "demo_rc_with_change": int(rm),
                         "how": "tools/vet_mutant.sh in a scratch worktree of /repo HEAD"},
           "needs_to_manifest": "see notes.md", "caught_by": []}, open(f"/verif/seeded/{i}/meta.json", "w"), indent=1)
PY
  echo "$ID: KEPT"
else
  echo "$ID: REJECTED"
fi

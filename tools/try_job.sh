#!/bin/sh
# usage: tools/try_job.sh <patch.diff> <Cxx> <tier> <job name>   - one job of one check against a seeded change (scratch worktree)
P="$(readlink -f "$1")"; C=$2; T=$3; J=$4
WT=/tmp/mutwt_$$
git -C /repo worktree add -q "$WT" HEAD || exit 9
trap 'git -C /repo worktree remove --force "$WT" >/dev/null 2>&1; rm -rf /tmp/mut_ev_$$' EXIT INT TERM
( cd "$WT" && git apply "$P" ) || { echo "patch does not apply"; exit 9; }
cd /verif
mkdir -p /tmp/mut_ev_$$
[ -n "$J" ] && export VERIF_ONLY_JOB="$J"
PYTHONPATH="$WT" VERIF_EVIDENCE_DIR=/tmp/mut_ev_$$ ./run_check.sh $C $T 2>&1 | grep -v "^  input\|^  detail" | tail -${LINES_OUT:-12}

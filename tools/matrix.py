#!/usr/bin/env python3
"""Runs each seeded change against a list of quick checks (tools/try_mutant.sh) and records the outcome in meta.json."""
import json, os, re, subprocess, sys
HERE = os.path.dirname(os.path.dirname(os.path.abspath(__file__)))
EXTRA = {"C03-m2": ["C04"], "C04-m1": ["C14"], "C05-m1": ["C18"], "C07-m1": ["C08"], "C08-m2": ["C07"], "C16-m2": ["C04"],
         "C07-r4m1": ["C14"], "C03-r4m1": ["C04"], "C12-r5m2": [], "C05-r6m2": ["C01"], "C06-r7m1": ["C01"], "C16-r7m1": ["C15"]}
only = sys.argv[1:]
for d in sorted(os.listdir(os.path.join(HERE, "seeded"))):
    if only and d not in only:
        continue
    mp = os.path.join(HERE, "seeded", d, "meta.json")
    if not os.path.exists(mp):
        continue
    meta = json.load(open(mp))
    if meta.get("runs") and not os.environ.get("MATRIX_FORCE"):
        continue
    checks = [meta["breaks_property"]] + EXTRA.get(d, [])
    out = subprocess.run([os.path.join(HERE, "tools", "try_mutant.sh"), os.path.join(HERE, "seeded", d, "patch.diff")] + checks,
                         capture_output=True, text=True).stdout
    res = []
    for line in out.splitlines():
        m = re.match(r"(C\d+) rc=(\d+) violations=(\d+)\s*(.*)", line)
        if m:
            sigs = re.findall(r"signature: (\S+)", m.group(4))
            res.append({"check": m.group(1), "tier": "quick", "exit": int(m.group(2)), "violation_lines": int(m.group(3)), "signatures": sigs,
                        "all_required_jobs_exhausted": "exhaustive=True" in m.group(4)})
    meta["caught_by"] = [r["check"] for r in res if r["exit"] == 1]
    meta["runs"] = res
    json.dump(meta, open(mp, "w"), indent=1)
    print(d, "caught by", meta["caught_by"], "| missed by", [r["check"] for r in res if r["exit"] != 1], flush=True)

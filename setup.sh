#!/bin/sh
# Offline bootstrap of the tooling venv for /verif (idempotent).
# /venv has the repository and its dependencies; the overlay adds z3-solver.
set -e
cd "$(dirname "$0")"
if [ ! -x .venv/bin/python ] || ! .venv/bin/python -c "import z3, yaml, graphviz" 2>/dev/null; then
  rm -rf .venv
  /venv/bin/python -m venv .venv
  SP=$(.venv/bin/python -c "import sysconfig; print(sysconfig.get_paths()['purelib'])")
  echo "import site; site.addsitedir('/venv/lib/python3.12/site-packages')" > "$SP/_base.pth"
  PIP_NO_INDEX=1 .venv/bin/python -m pip install -q --no-index --find-links /opt/veriftools/wheels z3-solver
fi
.venv/bin/python -c "import z3, numba_scfg; print('setup ok: z3', z3.get_version_string(), 'numba_scfg from', numba_scfg.__file__)"

"""A small parser for the DOT text emitted by graphviz.Digraph.source.

Grammar subset: digraph { stmt* } ; stmt := subgraph ID? { stmt* } | ID -> ID attrs? |
ID attrs | ID = ID | (graph|node|edge) attrs.  Quoted strings may span lines.
"""
from __future__ import annotations


class DotError(Exception):
    pass


def tokenize(src):
    i, n = 0, len(src)
    out = []
    while i < n:
        c = src[i]
        if c.isspace() or c in ";,":
            i += 1
        elif c == '"':
            j = i + 1
            buf = []
            while j < n and src[j] != '"':
                if src[j] == "\\" and j + 1 < n and src[j + 1] == '"':
                    buf.append('"')
                    j += 2
                else:
                    buf.append(src[j])
                    j += 1
            if j >= n:
                raise DotError("unterminated string")
            out.append(("id", "".join(buf)))
            i = j + 1
        elif c in "{}[]=":
            out.append((c, c))
            i += 1
        elif src.startswith("->", i):
            out.append(("->", "->"))
            i += 2
        elif src.startswith("//", i):
            while i < n and src[i] != "\n":
                i += 1
        else:
            j = i
            while j < n and not src[j].isspace() and src[j] not in '{}[]=;,"' and not src.startswith("->", j):
                j += 1
            out.append(("id", src[i:j]))
            i = j
    return out


class Graph:
    def __init__(self):
        self.nodes = []  # (name, attrs, cluster or None)
        self.edges = []  # (src, dst, attrs)
        self.clusters = []  # (name, parent or None, attrs)


def parse(src):
    toks = tokenize(src)
    pos = 0
    g = Graph()

    def peek(k=0):
        return toks[pos + k] if pos + k < len(toks) else (None, None)

    def take(kind=None):
        nonlocal pos
        t = peek()
        if t[0] is None or (kind and t[0] != kind):
            raise DotError(f"expected {kind}, got {t}")
        pos += 1
        return t

    def attrs():
        d = {}
        take("[")
        while peek()[0] != "]":
            k = take("id")[1]
            take("=")
            v = take("id")[1]
            d[k] = v
        take("]")
        return d

    def stmts(cluster, cattrs):
        nonlocal pos
        while True:
            t = peek()
            if t[0] == "}":
                take("}")
                return
            if t[0] is None:
                raise DotError("unexpected end")
            if t == ("id", "subgraph"):
                take()
                name = None
                if peek()[0] == "id":
                    name = take("id")[1]
                take("{")
                ca = {}
                g.clusters.append((name, cluster, ca))
                stmts(name, ca)
                continue
            a = take("id")[1]
            nt = peek()
            if nt[0] == "->":
                take()
                b = take("id")[1]
                d = attrs() if peek()[0] == "[" else {}
                g.edges.append((a, b, d))
            elif nt[0] == "=":
                take()
                cattrs[a] = take("id")[1]
            elif nt[0] == "[":
                d = attrs()
                if a not in ("graph", "node", "edge"):
                    g.nodes.append((a, d, cluster))
            else:
                g.nodes.append((a, {}, cluster))

    t = take("id")
    if t[1] not in ("digraph", "graph", "strict"):
        raise DotError("not a graph")
    while peek()[0] != "{":
        take()
    take("{")
    stmts(None, {})
    return g

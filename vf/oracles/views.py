"""Oracles for iteration / concealed view (C16) and rendering (C17)."""
from __future__ import annotations

import ast
from collections import Counter

from numba_scfg.core.datastructures.basic_block import (
    PythonASTBlock, RegionBlock, SyntheticAssignment, SyntheticBranch,
)
from vf.oracles.hier import flatten, regions, header_leaf, top_head, fwd_targets
from vf.oracles import dot


def _head_of(g):
    heads = set(g.graph)
    for b in g.graph.values():
        for t in fwd_targets(b):
            heads.discard(t)
    return sorted(heads)


def check_iter(scfg):
    errs = []
    regs = regions(scfg)
    flat = flatten(scfg)
    allnames = list(flat) + list(regs)
    try:
        items = list(scfg)
    except Exception as e:
        return [("iter-exception", type(e).__name__, str(e)[:80])]
    it = [n for n, _ in items]
    for n, b in items:
        exp = regs.get(n) or flat.get(n)
        if exp is not b:
            errs.append(("iter-wrong-object", n))
    c = Counter(it)
    missing = sorted(set(allnames) - set(it))
    dups = sorted(n for n, k in c.items() if k > 1)
    extra = sorted(set(it) - set(allnames))
    if missing:
        errs.append(("iter-missing", tuple(missing[:3])))
    if dups:
        errs.append(("iter-duplicate", tuple(dups[:3])))
    if extra:
        errs.append(("iter-extra", tuple(extra[:3])))
    heads = top_head(scfg)
    if it and len(heads) == 1 and it[0] != heads[0]:
        errs.append(("iter-head-not-first", it[0], heads[0]))

    def view(g, label, kind):
        try:
            v = list(g.concealed_region_view)
        except Exception as e:
            errs.append(("view-exception", kind, type(e).__name__, label, str(e)[:80]))
            return
        try:
            ln = len(g.concealed_region_view)
            if ln != len(g.graph):
                errs.append(("view-len", kind, label, ln))
        except Exception as e:
            errs.append(("view-len-exception", kind, type(e).__name__))
        c = Counter(v)
        missing = sorted(set(g.graph) - set(v))
        dups = sorted(n for n, k in c.items() if k > 1)
        extra = sorted(set(v) - set(g.graph))
        if missing:
            errs.append(("view-missing", kind, label, tuple(missing[:3])))
        if dups:
            errs.append(("view-duplicate", kind, label, tuple(dups[:3])))
        if extra:
            errs.append(("view-extra", kind, label, tuple(extra[:3])))
        if missing or dups or extra:
            return
        hs = _head_of(g)
        if len(hs) == 1 and v[0] != hs[0]:
            errs.append(("view-head-not-first", kind, label, v[0]))
            return
        seen = {v[0]}
        for x in v[1:]:
            if not any(x in fwd_targets(g.graph[p]) for p in seen):
                errs.append(("view-before-predecessors", kind, label, x))
            seen.add(x)
        # values()/items() of the Mapping view agree with the graph
        try:
            for k2, b2 in g.concealed_region_view.items():
                if g.graph[k2] is not b2:
                    errs.append(("view-item-wrong-object", kind, label, k2))
        except Exception as e:
            errs.append(("view-items-exception", kind, type(e).__name__))

    view(scfg, "top", "meta")
    for rn, R in regs.items():
        view(R.subregion, rn, R.kind)
    return errs


# ---------------------------------------------------------------------------


def expected_drawing(scfg):
    regs = regions(scfg)
    flat = flatten(scfg)

    def res(t):
        b = regs.get(t) or flat.get(t)
        if b is None:
            return None
        h = header_leaf(b)
        return h.name if h is not None else None

    edges = []
    for n, b in flat.items():
        for t in fwd_targets(b):
            edges.append((n, res(t), False))
        for t in b.backedges:
            edges.append((n, res(t), True))
    node_parent = {}
    cluster_parent = {}

    def walk(g, parent):
        for n, b in g.graph.items():
            if isinstance(b, RegionBlock):
                cluster_parent[n] = parent
                walk(b.subregion, n)
            else:
                node_parent[n] = parent

    walk(scfg, None)
    return flat, regs, edges, node_parent, cluster_parent


def check_dot(scfg, src, arrow_styles=("→", "=>")):
    errs = []
    try:
        g = dot.parse(src)
    except dot.DotError as e:
        return [("dot-unparsable", str(e)[:80])]
    flat, regs, edges, node_parent, cluster_parent = expected_drawing(scfg)
    nodes = Counter(n for n, _, _ in g.nodes)
    if set(nodes) != set(flat):
        errs.append(("nodes-differ", tuple(sorted(set(flat) - set(nodes))[:3]), tuple(sorted(set(nodes) - set(flat))[:3])))
    if any(k > 1 for k in nodes.values()):
        errs.append(("node-drawn-twice", tuple(sorted(n for n, k in nodes.items() if k > 1)[:3])))
    clusters = Counter()
    for name, parent, attrs in g.clusters:
        if name is None or not name.startswith("cluster_"):
            errs.append(("subgraph-not-a-cluster", str(name)))
            continue
        clusters[name[len("cluster_"):]] += 1
    if set(clusters) != set(regs):
        errs.append(("clusters-differ", tuple(sorted(set(regs) - set(clusters))[:3]), tuple(sorted(set(clusters) - set(regs))[:3])))
    if any(k > 1 for k in clusters.values()):
        errs.append(("cluster-drawn-twice",))
    for name, parent, attrs in g.clusters:
        if name and name.startswith("cluster_"):
            c = name[len("cluster_"):]
            p = parent[len("cluster_"):] if parent else None
            if c in cluster_parent and cluster_parent[c] != p:
                errs.append(("cluster-nesting", getattr(regs[c], "kind", None), c, p, cluster_parent[c]))
            lab = attrs.get("label", "")
            if c in regs and c not in lab:
                errs.append(("cluster-label", c))
    for n, attrs, cl in g.nodes:
        p = cl[len("cluster_"):] if cl else None
        if n in node_parent and node_parent[n] != p:
            errs.append(("node-nesting", type(flat[n]).__name__, n, p, node_parent[n]))
    got = Counter()
    for a, b, attrs in g.edges:
        got[(a, b, attrs.get("style") == "dashed")] += 1
    want = Counter(edges)
    if got != want:
        miss = list((want - got).elements())[:3]
        extra = list((got - want).elements())[:3]
        kind = "edges-differ"
        if miss and not extra:
            kind = "edge-missing" + ("-dashed" if miss[0][2] else "-solid")
        elif extra and not miss:
            kind = "edge-extra" + ("-dashed" if extra[0][2] else "-solid")
        errs.append((kind, tuple(miss), tuple(extra)))
    # labels: format-agnostic - a label line must carry both members of every pair
    import re

    def lines_of(lab):
        return [x for x in re.split(r"\\l|\\n|\n", lab) if x.strip()]

    def has_pair(lab, a, b):
        ta = re.compile(r"(?<![\w])" + re.escape(str(a)) + r"(?![\w])")
        tb = re.compile(r"(?<![\w])" + re.escape(str(b)) + r"(?![\w])")
        for ln in lines_of(lab):
            ma = ta.search(ln)
            if ma is None:
                continue
            rest = ln[:ma.start()] + " " + ln[ma.end():]
            if tb.search(rest):
                return True
        return False

    for n, attrs, cl in g.nodes:
        b = flat.get(n)
        if b is None:
            continue
        lab = attrs.get("label", "")
        if n not in lab:
            errs.append(("label-name", type(b).__name__, n))
        if isinstance(b, SyntheticAssignment):
            for k, v in b.variable_assignment.items():
                if not has_pair(lab, k, v):
                    errs.append(("label-assignment", type(b).__name__, n, k))
        if isinstance(b, SyntheticBranch):
            if str(b.variable) not in lab:
                errs.append(("label-variable", type(b).__name__, n))
            for k, v in b.branch_value_table.items():
                if not has_pair(lab, k, v):
                    errs.append(("label-table", type(b).__name__, n, k, v))
        if isinstance(b, PythonASTBlock):
            for st in b.tree:
                txt = ast.unparse(st)
                if txt not in lab.replace('\\"', '"'):
                    errs.append(("label-ast", type(b).__name__, n, txt[:30]))
    return errs

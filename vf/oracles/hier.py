"""Oracles over the region hierarchy (DESIGN section 4).

Everything here is derived from the property statements; nothing compares with
names, counts or layouts the implementation happens to produce.  All functions
return a list of error tuples whose first element is the error kind.
"""
from __future__ import annotations

import ast

from numba_scfg.core.datastructures.basic_block import (
    BasicBlock,
    PythonASTBlock,
    PythonBytecodeBlock,
    RegionBlock,
    SyntheticAssignment,
    SyntheticBlock,
    SyntheticBranch,
    SyntheticExitingLatch,
)
from numba_scfg.core.datastructures.scfg import SCFG

STAGES = ("join_returns", "restructure_loop", "restructure_branch")


def fwd_targets(b):
    """the non-back-edge targets of a block, in order - computed here from the two stored tuples, not taken from the
    library's own `jump_targets` property (which is part of the code under test)"""
    return tuple(t for t in b._jump_targets if t not in b.backedges)


# ---------------------------------------------------------------------------
# building inputs


def make_block(name, targets, payload, idx):
    targets = tuple(targets)
    if payload == "basic":
        return BasicBlock(name=name, _jump_targets=targets)
    if payload == "bytecode":
        return PythonBytecodeBlock(name=name, _jump_targets=targets, begin=10 * idx, end=10 * idx + 6)
    if payload == "ast":
        tree = [ast.parse(f"m{idx}()").body[0]]
        if len(targets) == 2:
            tree.append(ast.parse(f"c{idx}", mode="eval").body)
        if len(targets) == 0:
            tree.append(ast.parse(f"return r{idx}").body[0])
        return PythonASTBlock(name=name, _jump_targets=targets, tree=tree)
    raise ValueError(payload)


_FRONT_CACHE: dict = {}


def build_scfg(desc, payload="basic"):
    """S1 descriptions (names/succ) or front-end derived graphs:
    {"kind": "source", "src": ...} -> AST2SCFG, {"kind": "bytecode", "src": ...} -> ByteFlow."""
    kind = desc.get("kind")
    if kind == "source":
        from numba_scfg.core.datastructures.ast_transforms import AST2SCFG

        return AST2SCFG(desc["src"])
    if kind == "bytecode":
        from numba_scfg.core.datastructures.byte_flow import ByteFlow

        ns = {}
        exec(compile(desc["src"], "<front>", "exec"), ns)
        return ByteFlow.from_bytecode(ns["f"]).scfg
    names = desc["names"]
    graph = {n: make_block(n, s, payload, i) for i, (n, s) in enumerate(zip(names, desc["succ"]))}
    c = desc.get("counter_start")
    if c is None:
        return SCFG(graph)
    # a name generator that has been used before (the public constructor takes one): every kind of name this graph
    # needs starts at index c, so that e.g. c = 9 makes the indices cross from one to two digits at once
    from numba_scfg.core.datastructures.scfg import NameGenerator

    probe = SCFG(dict(graph))
    try:
        probe.restructure()
    except Exception:
        pass
    return SCFG(graph, name_gen=NameGenerator(kinds={k: c for k in probe.name_gen.kinds}))


def orig_map(desc):
    if desc.get("kind") in ("source", "bytecode"):
        key = (desc["kind"], desc["src"])
        if key not in _FRONT_CACHE:
            if len(_FRONT_CACHE) > 256:
                _FRONT_CACHE.clear()
            g = build_scfg(desc)
            _FRONT_CACHE[key] = {n: tuple(b._jump_targets) for n, b in g.graph.items()}
        return _FRONT_CACHE[key]
    return {n: tuple(s) for n, s in zip(desc["names"], desc["succ"])}


def is_closed(orig):
    """the closed-CFG predicate of DESIGN section 9 on a concrete graph"""
    preds = {n: set() for n in orig}
    for n, s in orig.items():
        if len(s) > 2 or len(set(s)) != len(s):
            return False
        for t in s:
            if t not in orig:
                return False
            preds[t].add(n)
    heads = [n for n in orig if not preds[n]]
    if len(heads) != 1:
        return False
    seen = {heads[0]}
    st = [heads[0]]
    while st:
        x = st.pop()
        for y in orig[x]:
            if y not in seen:
                seen.add(y)
                st.append(y)
    if len(seen) != len(orig):
        return False
    ok = {n for n, s in orig.items() if not s}
    ch = True
    while ch:
        ch = False
        for n, s in orig.items():
            if n not in ok and any(t in ok for t in s):
                ok.add(n)
                ch = True
    return len(ok) == len(orig)


def apply_stages(g, k):
    for s in STAGES[:k]:
        getattr(g, s)()


def reload(g, how="dict"):
    """write the graph out and read it back (a history the properties quantify over: 'a graph that was written out
    and read back between stages')"""
    if how == "yaml":
        return SCFG.from_yaml(g.to_yaml())[0]
    return SCFG.from_dict(g.to_dict())[0]


def route_stages(desc, stages):
    """the stage prefixes worth checking on the route of `desc`: a prefix that ends before the reload point gives the
    same graph as the direct route"""
    route = desc.get("route") or "direct"
    if route == "direct":
        return list(stages)
    if route == "final":
        return list(stages)[-1:]  # the direct route, last stage prefix only (cheap extra naming of a large space)
    if route == "reread":
        return [k for k in stages if k >= 2]  # the graph after k stages, written to a dictionary and read back
    at = int(route.split("@")[1])
    if route.startswith("alias"):
        return [k for k in stages if k == at]
    return [k for k in stages if k > at]


def staged(desc, payload, k):
    """The graph of `desc` after the first k stages, along the route recorded in desc["route"]:
    None / "direct": the stages in one go; "reload@j" / "yreload@j": written to a dictionary (YAML text) and read back
    after stage j (0 <= j < k), then the remaining stages; "alias@j": the graph after stage j, inspected after a
    written-and-read-back copy of it went through the remaining stages.  -> (graph, original blocks)"""
    g = build_scfg(desc, payload)
    orig_blocks = dict(g.graph)
    route = desc.get("route") or "direct"
    at = -1
    how = "dict"
    if route.startswith("alias@"):
        # the graph after stage j, after a COPY of it (written out and read back) was restructured further: what is
        # done to the copy must not reach the graph it was read from
        at = int(route.split("@")[1])
        for st in STAGES[:at]:
            getattr(g, st)()
        twin = reload(g, "dict")
        try:
            for st in STAGES[at:]:
                getattr(twin, st)()
        except Exception:
            pass
        return g, orig_blocks
    if route == "final":
        route = "direct"
    if route == "reread":
        for st in STAGES[:k]:
            getattr(g, st)()
        return reload(g, "dict"), orig_blocks
    if route != "direct":
        how = "yaml" if route.startswith("y") else "dict"
        at = int(route.split("@")[1])
    if at == 0:
        g = reload(g, how)
        orig_blocks = dict(g.graph)
    for j, st in enumerate(STAGES[:k], start=1):
        getattr(g, st)()
        if j == at and j < k:
            g = reload(g, how)
    return g, orig_blocks


# ---------------------------------------------------------------------------
# hierarchy helpers


class Dup(Exception):
    pass


def flatten(scfg, out=None, strict=False):
    out = {} if out is None else out
    for n, b in scfg.graph.items():
        if isinstance(b, RegionBlock):
            flatten(b.subregion, out, strict)
        else:
            if strict and n in out:
                raise Dup(n)
            out[n] = b
    return out


def regions(scfg, out=None):
    out = {} if out is None else out
    for n, b in scfg.graph.items():
        if isinstance(b, RegionBlock):
            out[n] = b
            regions(b.subregion, out)
    return out


def resolve(name, regs):
    seen = 0
    while name in regs:
        name = regs[name].header
        seen += 1
        if seen > 10000:
            raise RuntimeError("header chain does not terminate")
    return name


def exiting_leaf(b):
    while isinstance(b, RegionBlock):
        b = b.subregion.graph.get(b.exiting)
        if b is None:
            return None
    return b


def header_leaf(b):
    while isinstance(b, RegionBlock):
        b = b.subregion.graph.get(b.header)
        if b is None:
            return None
    return b


def top_head(scfg):
    heads = set(scfg.graph)
    for b in scfg.graph.values():
        for t in fwd_targets(b):
            heads.discard(t)
    return sorted(heads)


# ---------------------------------------------------------------------------
# product exploration (C01, C06 dynamic, C14)

CTRL_KINDS = {"unset", "range", "table-target", "stale-latch"}


class _V(Exception):
    pass


def _product(orig, start, stepper, block_of, errors, fresh_bits=False, max_states=200000):
    """Explore the product of the original graph with a walker over the result.

    state = (position, ctrl valuation, expected original block | None=END)
    stepper(position, idx) -> new position (raises _V on structural violation)
    block_of(position) -> (name, block)
    """
    ohead = [n for n in orig if all(n not in s for s in orig.values())]
    ohead = ohead[0] if ohead else None
    seen = set()
    stack = [(start, (), ohead)]
    synth_edges = {}
    while stack:
        st = stack.pop()
        if st in seen:
            continue
        seen.add(st)
        if len(seen) > max_states:
            errors.append(("product-too-large", len(seen)))
            return
        pos, ctrl, expect = st
        try:
            name, b = block_of(pos)
        except _V as e:
            errors.append(e.args[0])
            continue
        nxt = []
        try:
            if name in orig:
                if name != expect:
                    errors.append(("wrong-block", name, expect))
                    continue
                osucc = orig[name]
                tg = b._jump_targets
                if len(osucc) == 0:
                    if len(tg) == 0:
                        continue
                    if len(tg) != 1:
                        errors.append(("exit-arity", name, tg))
                        continue
                    nxt.append((stepper(pos, 0), ctrl, None))
                else:
                    if len(tg) != len(osucc):
                        errors.append(("arity", name, tg, osucc))
                        continue
                    for i in range(len(tg)):
                        nxt.append((stepper(pos, i), ctrl, osucc[i]))
                stack.extend(nxt)
                continue
            if isinstance(b, SyntheticAssignment):
                d = dict(ctrl)
                for k, v in b.variable_assignment.items():
                    d[k] = (v, True) if fresh_bits else v
                if len(b._jump_targets) != 1:
                    errors.append(("assign-arity", name, b._jump_targets))
                    continue
                nxt.append((stepper(pos, 0), tuple(sorted(d.items())), expect))
            elif isinstance(b, SyntheticBranch):
                d = dict(ctrl)
                if b.variable not in d:
                    errors.append(("unset", name, b.variable))
                    continue
                v = d[b.variable]
                nctrl = ctrl
                if fresh_bits:
                    v, fresh = v
                    if isinstance(b, SyntheticExitingLatch):
                        if not fresh:
                            errors.append(("stale-latch", name, b.variable))
                            continue
                        d[b.variable] = (v, False)
                        nctrl = tuple(sorted(d.items()))
                if v not in b.branch_value_table:
                    errors.append(("range", name, b.variable, v))
                    continue
                t = b.branch_value_table[v]
                if t not in b._jump_targets:
                    errors.append(("table-target", name, t))
                    continue
                nxt.append((stepper(pos, b._jump_targets.index(t)), nctrl, expect))
            else:
                tg = b._jump_targets
                if len(tg) == 0:
                    if expect is not None:
                        errors.append(("early-stop", name, expect))
                    continue
                if len(tg) != 1:
                    errors.append(("synth-arity", name, tg))
                    continue
                nxt.append((stepper(pos, 0), ctrl, expect))
        except _V as e:
            errors.append(e.args[0])
            continue
        synth_edges[st] = nxt
        stack.extend(nxt)
    # a cycle of product states that visits no original block: the result
    # would spin where the original progresses
    color = {}
    for root in synth_edges:
        if root in color:
            continue
        path = [(root, iter(synth_edges.get(root, ())))]
        color[root] = 1
        while path:
            node, it = path[-1]
            adv = False
            for m in it:
                if m not in synth_edges:
                    continue
                c = color.get(m)
                if c == 1:
                    errors.append(("spin", block_of(m[0])[0]))
                    return
                if c is None:
                    color[m] = 1
                    path.append((m, iter(synth_edges[m])))
                    adv = True
                    break
            if not adv:
                color[node] = 2
                path.pop()


def flat_walk_check(orig, scfg, fresh_bits=False):
    """Walk by every block's own `_jump_targets`, by name."""
    errors = []
    try:
        flat = flatten(scfg, strict=True)
    except Dup as e:
        return [("duplicate-name", e.args[0])]
    regs = regions(scfg)

    def block_of(pos):
        if pos not in flat:
            raise _V(("dangling", pos))
        return pos, flat[pos]

    def stepper(pos, idx):
        return resolve(flat[pos]._jump_targets[idx], regs)

    heads = top_head(scfg)
    if len(heads) != 1:
        return [("no-unique-head", tuple(heads))]
    _product(orig, resolve(heads[0], regs), stepper, block_of, errors, fresh_bits)
    return errors


def region_walk_check(orig, scfg):
    """Walk region by region: enter at the declared header, stay inside the
    sub-graph, leave only through the declared exiting block and continue at
    the region's own outgoing targets (same position among non-back-edge
    targets).  A back edge climbs the exiting chain to the first loop region
    and continues at that region's declared header."""
    regs = regions(scfg)

    def graph_of(path):
        return scfg.graph if len(path) == 1 else regs[path[-2]].subregion.graph

    def descend(path):
        g = graph_of(path)
        if path[-1] not in g:
            raise _V(("dangling", path[-1]))
        b = g[path[-1]]
        n = 0
        while isinstance(b, RegionBlock):
            if b.header not in b.subregion.graph:
                raise _V(("header-missing", b.name, b.header))
            path = path + (b.header,)
            b = b.subregion.graph[b.header]
            n += 1
            if n > 1000:
                raise _V(("header-chain",))
        return path

    def stepper(path, idx):
        g = graph_of(path)
        b = g[path[-1]]
        cur_path, cur_block, cur_idx = path, b, idx
        cur_t = b._jump_targets[idx]
        while True:
            g = graph_of(cur_path)
            if cur_t in g and cur_t not in cur_block.backedges:
                return descend(cur_path[:-1] + (cur_t,))
            if cur_t in cur_block.backedges:
                pth = cur_path
                while True:
                    if len(pth) == 1:
                        raise _V(("backedge-no-loop", cur_path[-1], cur_t))
                    RR = regs[pth[-2]]
                    if RR.exiting != pth[-1]:
                        raise _V(("backedge-from-non-exiting", RR.name, pth[-1]))
                    if RR.kind == "loop":
                        return descend(pth[:-1] + (RR.header,))
                    pth = pth[:-1]
            if len(cur_path) == 1:
                raise _V(("dangling-top", cur_path[-1], cur_t))
            R = regs[cur_path[-2]]
            if R.exiting != cur_path[-1]:
                raise _V(("leave-from-non-exiting", R.name, cur_path[-1], cur_t))
            nb_idx = [i for i, x in enumerate(cur_block._jump_targets) if x not in cur_block.backedges]
            k = nb_idx.index(cur_idx)
            rnb = [i for i, x in enumerate(R._jump_targets) if x not in R.backedges]
            if k >= len(rnb):
                raise _V(("region-arity", R.name, cur_block._jump_targets, R._jump_targets))
            cur_idx = rnb[k]
            if R._jump_targets[cur_idx] != cur_t:
                # the exiting block leaves towards a target the region does not declare at that position: walking by
                # the blocks' own targets and walking by the regions' outgoing targets part ways here
                raise _V(("region-exit-target-undeclared", R.kind, R.name, cur_path[-1], cur_t, R._jump_targets[cur_idx]))
            cur_t = R._jump_targets[cur_idx]
            cur_block = R
            cur_path = cur_path[:-1]

    def block_of(path):
        g = graph_of(path)
        if path[-1] not in g:
            raise _V(("dangling", path[-1]))
        return path[-1], g[path[-1]]

    errors = []
    heads = top_head(scfg)
    if len(heads) != 1:
        return [("no-unique-head", tuple(heads))]
    try:
        start = descend((heads[0],))
    except _V as e:
        return [e.args[0]]
    _product(orig, start, stepper, block_of, errors)
    return errors


# ---------------------------------------------------------------------------
# C04 - self-consistency of the hierarchy


def check_hier(scfg):
    errs = []
    seen_names = {}

    def walk(g, ancestors, parent_region):
        scope = set(g.graph)
        for a in ancestors:
            scope |= set(a.graph)
        for n, b in g.graph.items():
            if n != b.name:
                errs.append(("key-name", n, b.name))
            if n in seen_names:
                errs.append(("duplicate-name", n))
            seen_names[n] = True
            for t in b._jump_targets:
                if t not in scope:
                    errs.append(("scope-target", type(b).__name__, n, t))
            for t in b.backedges:
                if t not in scope:
                    errs.append(("scope-backedge", type(b).__name__, n, t))
                if t not in b._jump_targets:
                    errs.append(("backedge-not-a-target", type(b).__name__, n, t))
            if isinstance(b, RegionBlock):
                sub = b.subregion
                if sub is None or not isinstance(sub, SCFG):
                    errs.append(("no-subregion", n))
                    continue
                if b.header not in sub.graph:
                    errs.append(("header-outside", b.kind, n, b.header))
                if b.exiting not in sub.graph:
                    errs.append(("exiting-outside", b.kind, n, b.exiting))
                else:
                    ex = sub.graph[b.exiting]
                    if fwd_targets(ex) != fwd_targets(b):
                        errs.append(("region-vs-exiting-targets", b.kind, n, ex._jump_targets, b._jump_targets))
                pr = b.parent_region
                if pr is None or pr.name != parent_region.name or pr.subregion is not g:
                    errs.append(("parent", b.kind, n, getattr(pr, "name", None), parent_region.name))
                if getattr(sub, "region", None) is None or sub.region.name != b.name:
                    errs.append(("subregion-region", b.kind, n))
                for m, c in sub.graph.items():
                    if m != b.exiting:
                        for t in c._jump_targets:
                            if t not in sub.graph:
                                errs.append(("leaves-not-from-exiting", b.kind, n, m, t))
                for m, c in g.graph.items():
                    if m == n:
                        continue
                    for t in c._jump_targets:
                        if t in sub.graph:
                            errs.append(("enters-inside", b.kind, n, m, t))
                walk(sub, ancestors + [g], b)

    walk(scfg, [], scfg.region)
    # control enters a region only at its header: any block outside the region
    # naming something strictly inside it (at any depth)
    regs = regions(scfg)
    for rn, R in regs.items():
        inside = set(flatten(R.subregion)) | set(regions(R.subregion))
        outer_blocks = []

        def collect(g):
            for n, b in g.graph.items():
                if n == rn:
                    continue
                outer_blocks.append(b)
                if isinstance(b, RegionBlock):
                    collect(b.subregion)

        collect(scfg)
        for b in outer_blocks:
            if b.name in inside:
                continue
            for t in b._jump_targets:
                if t in inside:
                    errs.append(("enters-inside-deep", R.kind, rn, b.name, t))
    return errs


# ---------------------------------------------------------------------------
# C03 - structuredness


def input_sccs(orig):
    names = list(orig)
    idx = {n: i for i, n in enumerate(names)}
    n = len(names)
    R = [[False] * n for _ in range(n)]
    for a, s in orig.items():
        for t in s:
            R[idx[a]][idx[t]] = True
    for k in range(n):
        for i in range(n):
            if R[i][k]:
                for j in range(n):
                    if R[k][j]:
                        R[i][j] = True
    comps = []
    done = set()
    for i in range(n):
        if i in done:
            continue
        comp = {names[j] for j in range(n) if j == i or (R[i][j] and R[j][i])}
        done |= {idx[c] for c in comp}
        if len(comp) > 1 or R[i][i]:
            comps.append(comp)
    return comps


def check_struct(scfg, orig=None):
    errs = []
    regs = regions(scfg)
    flat = flatten(scfg)
    latch_owner = {}
    for rn, R in regs.items():
        if R.kind == "loop":
            l = exiting_leaf(R)
            if l is None:
                errs.append(("loop-exiting-missing", rn))
                continue
            latch_owner.setdefault(l.name, []).append(rn)
            if len(l.backedges) != 1:
                errs.append(("latch-backedges", rn, l.name, l.backedges))
                continue
            be = l.backedges[0]
            tgt = regs[be] if be in regs else flat.get(be)
            hl = header_leaf(R)
            if tgt is None or hl is None or header_leaf(tgt) is not hl:
                errs.append(("backedge-not-to-header", rn, l.name, be, R.header))
    for n, b in flat.items():
        if b.backedges and n not in latch_owner:
            errs.append(("backedge-on-non-latch", type(b).__name__, n))
    for n, owners in latch_owner.items():
        if len(owners) > 1:
            errs.append(("latch-shared", n, tuple(owners)))
    # every cycle of the input lies inside one loop region
    if orig is not None:
        for comp in input_sccs(orig):
            ok = False
            for rn, R in regs.items():
                if R.kind == "loop" and comp <= set(flatten(R.subregion)):
                    ok = True
                    break
            if not ok:
                errs.append(("input-cycle-not-in-loop-region", tuple(sorted(comp))))
    # loop region entered only at its header
    for rn, R in regs.items():
        if R.kind != "loop":
            continue
        inside = set(flatten(R.subregion)) | set(regions(R.subregion))
        hdr_names = {rn}
        h = R
        while isinstance(h, RegionBlock):
            hdr_names.add(h.header)
            h = h.subregion.graph.get(h.header)
            if h is None:
                break
        for n, b in list(flat.items()) + list(regs.items()):
            if n in inside or n == rn:
                continue
            for t in b._jump_targets:
                if t in inside and t not in hdr_names:
                    errs.append(("loop-entered-not-at-header", rn, n, t))

    def level(g, region):
        names = set(g.graph)
        succ = {n: [t for t in fwd_targets(b) if t in names] for n, b in g.graph.items()}
        color = {}

        def dfs(u):
            stack = [(u, iter(succ[u]))]
            color[u] = 1
            while stack:
                node, it = stack[-1]
                adv = False
                for v in it:
                    if color.get(v) == 1:
                        return True
                    if v not in color:
                        color[v] = 1
                        stack.append((v, iter(succ[v])))
                        adv = True
                        break
                if not adv:
                    color[node] = 2
                    stack.pop()
            return False

        for n in g.graph:
            if n not in color and dfs(n):
                errs.append(("cycle-at-level", region.kind, region.name))
                break
        for n, b in g.graph.items():
            jt = fwd_targets(b)
            if len(jt) > 1:
                if isinstance(b, RegionBlock):
                    if b.kind != "head":
                        errs.append(("multi-succ-region-not-head", region.kind, b.kind, n))
                        continue
                    tails = set()
                    if len(set(jt)) != len(jt):
                        errs.append(("dup-branches", n))
                    for t in jt:
                        tb = g.graph.get(t)
                        if not isinstance(tb, RegionBlock) or tb.kind != "branch":
                            errs.append(("succ-not-branch-region", region.kind, n, t, type(tb).__name__, getattr(tb, "kind", None)))
                            continue
                        if len(fwd_targets(tb)) != 1:
                            errs.append(("branch-continuations", n, t, fwd_targets(tb)))
                            continue
                        tails.add(fwd_targets(tb)[0])
                    if len(tails) > 1:
                        errs.append(("branches-different-tails", n, tuple(sorted(tails))))
                    for t in tails:
                        tb = g.graph.get(t)
                        if not isinstance(tb, RegionBlock) or tb.kind != "tail":
                            errs.append(("continuation-not-tail-region", region.kind, n, t))
                else:
                    if not (region.kind == "head" and n == region.exiting):
                        errs.append(("branching-block-not-head-exiting", region.kind, type(b).__name__, n))
        for n, b in g.graph.items():
            if isinstance(b, RegionBlock):
                level(b.subregion, b)

    level(scfg, scfg.region)
    # the continuations a region REALLY has (targets of the blocks inside it that lie outside it, declared back edges
    # aside) are the ones it declares: "each branch region has exactly one continuation" is a statement about where
    # control goes, not about the region block's own tuple
    for rn, R in regs.items():
        inside = set(flatten(R.subregion)) | set(regions(R.subregion)) | {rn}
        actual = []
        for n, b in flatten(R.subregion).items():
            for t in b._jump_targets:
                if t not in inside and t not in b.backedges and t not in actual:
                    actual.append(t)
        extra = [t for t in actual if t not in R._jump_targets]
        if extra:
            errs.append(("region-has-undeclared-continuation", R.kind, rn, tuple(extra), tuple(R._jump_targets)))
    return errs


# ---------------------------------------------------------------------------
# C05 - conservation of original blocks


def payload_equal(a, b):
    if type(a) is not type(b):
        return False
    if isinstance(a, PythonBytecodeBlock):
        return a.begin == b.begin and a.end == b.end
    if isinstance(a, PythonASTBlock):
        if a.begin != b.begin or a.end != b.end or len(a.tree) != len(b.tree):
            return False
        for x, y in zip(a.tree, b.tree):
            if x is not y and ast.dump(x) != ast.dump(y):
                return False
    return True


def check_conserved(orig_blocks, scfg):
    """orig_blocks: name -> the very block objects the input graph was built from."""
    errs = []
    try:
        flat = flatten(scfg, strict=True)
    except Dup as e:
        return [("duplicated", e.args[0])]
    regs = regions(scfg)
    for n, ob in orig_blocks.items():
        if n in regs:
            errs.append(("original-became-region", n))
            continue
        if n not in flat:
            errs.append(("lost", n))
            continue
        b = flat[n]
        if type(b) is not type(ob):
            errs.append(("type-changed", n, type(b).__name__))
            continue
        if not payload_equal(ob, b):
            errs.append(("payload-changed", type(b).__name__, n))
        s = ob._jump_targets
        t = b._jump_targets
        if len(s) == 0:
            if len(t) > 1:
                errs.append(("exit-gained-several", n, t))
            elif len(t) == 1 and t[0] in orig_blocks:
                errs.append(("exit-gained-original", n, t))
        else:
            if len(t) != len(s):
                errs.append(("arity-changed", n, s, t))
                continue
            for o, x in zip(s, t):
                if x != o and x in orig_blocks:
                    errs.append(("renamed-to-original", n, o, x))
        if set(b.backedges) - set(t):
            errs.append(("backedge-not-target", n))
    for n, b in flat.items():
        if n not in orig_blocks and not isinstance(b, SyntheticBlock):
            errs.append(("added-non-synthetic", type(b).__name__, n))
    return errs


# ---------------------------------------------------------------------------
# C06 static part


def check_tables(scfg):
    errs = []
    flat = flatten(scfg)
    for n, b in flat.items():
        if isinstance(b, SyntheticBranch):
            for k, v in b.branch_value_table.items():
                if v not in b._jump_targets:
                    errs.append(("table-value-not-a-target", type(b).__name__, n, k, v))
            vals = set(b.branch_value_table.values())
            for t in b._jump_targets:
                if t not in vals:
                    errs.append(("target-without-table-entry", type(b).__name__, n, t))
    return errs

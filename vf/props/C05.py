"""C05 - original blocks are conserved (three payload types, every stage prefix)."""
from vf.props._s1prop import make, COMMON_FUNCTIONS, COMMON_ASSUMPTIONS
from vf.oracles.hier import check_conserved

PROPERTY = "C05"
LEVEL = "model_checking"
RULE = ("one closed CFG per solver-enumerated path x payload type {BasicBlock, PythonBytecodeBlock, PythonASTBlock} x stage prefix; "
        "every input block must occur exactly once as a leaf of the same type with untouched payload, same arity, successors unchanged or "
        "renamed to something that did not exist in the input; non-trivial = synthetic block inserted")
FUNCTIONS = COMMON_FUNCTIONS + [
    "numba_scfg.core.datastructures.basic_block:BasicBlock.replace_jump_targets",
    "numba_scfg.core.datastructures.basic_block:BasicBlock.replace_backedges",
    "numba_scfg.core.datastructures.basic_block:BasicBlock.declare_backedge",
]
ASSUMPTIONS = COMMON_ASSUMPTIONS + ["AST statements compared by node identity, failing that by ast.dump"]


def _oracle(desc, orig_blocks, g, k, payload):
    return check_conserved(orig_blocks, g)


check, harness, _jobs, replay = make(_oracle, stages=(1, 2, 3), payloads=("basic", "bytecode", "ast"))

# input blocks named inside the name generator's own namespace (two-digit indices included)
NAME_SCHEMES = [
    ["synth_asign_block_0", "synth_exit_latch_block_0", "synth_return_block_0", "loop_region_0", "synth_head_block_0"],
    ["synth_asign_block_9", "synth_asign_block_10", "synth_exit_latch_block_10", "synth_asign_block_11", "loop_region_10"],
    ["head_region_9", "head_region_10", "synth_tail_block_10", "synth_exit_block_10", "branch_region_10"],
]


def jobs(tier):
    import z3
    from vf.runner import Job
    from vf.spaces import s1_space, realise_s1

    js = _jobs(tier)
    N = 4

    def space():
        f, cubes, aux = s1_space(N, entry=0 if tier == "quick" else None)
        sc = z3.Int("scheme")
        aux["scheme"] = sc
        return z3.And(f, sc >= 0, sc < len(NAME_SCHEMES)), [sc] + cubes, aux

    def h(E, ctx, aux):
        d = realise_s1(E, aux)
        sc = E.realize(aux["scheme"])
        m = {f"b{i}": NAME_SCHEMES[sc][i] for i in range(N)}
        desc = {"names": [m[n] for n in d["names"]], "succ": [[m[t] for t in s] for s in d["succ"]]}
        ctx.current = desc
        ctx.feature(f"name-scheme:{sc}")
        harness(E, ctx, aux, desc)

    js.insert(2, Job("S1-N4-names-in-generator-namespace", space, h,
                     bounds={"space": "S1", "blocks": N, "name_schemes": NAME_SCHEMES, "entry": "b0" if tier == "quick" else "any"}, budget_s=900))
    return js

"""C05 - original blocks are conserved (three payload types, every stage prefix)."""
from vf.props._s1prop import make, COMMON_FUNCTIONS, COMMON_ASSUMPTIONS
from vf.oracles.hier import check_conserved

PROPERTY = "C05"
LEVEL = "model_checking"
RULE = ("one closed CFG per solver-enumerated path x payload type {BasicBlock, PythonBytecodeBlock, PythonASTBlock} x stage prefix; "
        "every input block must occur exactly once as a leaf of the same type with untouched payload, same arity, successors unchanged or "
        "renamed to something that did not exist in the input; non-trivial = synthetic block inserted")
FUNCTIONS = COMMON_FUNCTIONS + [
    "numba_scfg.core.datastructures.basic_block:BasicBlock.replace_jump_targets",
    "numba_scfg.core.datastructures.basic_block:BasicBlock.replace_backedges",
    "numba_scfg.core.datastructures.basic_block:BasicBlock.declare_backedge",
]
ASSUMPTIONS = COMMON_ASSUMPTIONS + ["AST statements compared by node identity, failing that by ast.dump"]


def _oracle(desc, orig_blocks, g, k, payload):
    return check_conserved(orig_blocks, g)


check, harness, jobs, replay = make(_oracle, stages=(1, 2, 3), payloads=("basic", "bytecode", "ast"))


"""C07 - Python source round trip is observationally equivalent or refused."""
import z3

from vf.runner import Job
from vf.s1common import exc_signature
from vf import s2

PROPERTY = "C07"
LEVEL = "translation_validation"
RULE = ("programs: every function of the bounded grammar S2 (control skeletons S2-ctl and expression forms S2-expr), each production choice a z3 "
        "integer realised by the engine; per program the original and the regenerated function are BOTH executed symbolically on the same symbolic "
        "arguments and external-call results; per path the solver must refute result inequality, and exception types and call logs must agree; "
        "non-trivial = a program whose pipeline produced a function (not refused) and that was compared on >= 1 path")
FUNCTIONS = [
    "numba_scfg.core.datastructures.ast_transforms:AST2SCFG",
    "numba_scfg.core.datastructures.ast_transforms:SCFG2AST",
    "numba_scfg.core.datastructures.ast_transforms:AST2SCFGTransformer.handle_ast_node",
    "numba_scfg.core.datastructures.ast_transforms:AST2SCFGTransformer.handle_expression",
    "numba_scfg.core.datastructures.ast_transforms:AST2SCFGTransformer.handle_bool_op",
    "numba_scfg.core.datastructures.ast_transforms:AST2SCFGTransformer.handle_if",
    "numba_scfg.core.datastructures.ast_transforms:AST2SCFGTransformer.handle_while",
    "numba_scfg.core.datastructures.ast_transforms:AST2SCFGTransformer.handle_for",
    "numba_scfg.core.datastructures.ast_transforms:ASTCFG.prune_empty",
    "numba_scfg.core.datastructures.ast_transforms:SCFG2ASTTransformer.transform",
    "numba_scfg.core.datastructures.ast_transforms:SCFG2ASTTransformer.codegen",
    "numba_scfg.core.datastructures.scfg:SCFG.restructure",
    "numba_scfg.core.datastructures.scfg:ConcealedRegionView.region_view_iterator",
]
ASSUMPTIONS = [
    "arguments: integers x, y in [-4, 8], n in [0, 3] (range bound), c.a and c[0] arbitrary integers; external calls return arbitrary integers (one z3 variable per site and dynamic call, shared by both runs)",
    "unwinding cap: 8 external calls / 40 logged events per run; paths cut by the cap are counted (feature unwind-cap-hit) and not claimed",
    "non-integer data and exceptions raised by operands are outside the claim; programs beyond the grammar bound are outside the claim",
    "a NotImplementedError from the pipeline is an allowed refusal (counted, not compared)",
]


def classify(src):
    """coarse structural cause for known-finding signatures"""
    import ast
    tree = ast.parse(src)
    tags = set()
    for node in ast.walk(tree):
        if isinstance(node, (ast.If, ast.While)):
            t = node.test
            if not isinstance(t, (ast.Name, ast.Compare, ast.BoolOp)):
                tags.add("test:" + type(t).__name__)
        if isinstance(node, ast.BoolOp):
            tags.add("boolop")
    return tags


def one_path(E, ctx, prog, desc_base, raising=False):
    """compare original vs regenerated on the current path; E None = concrete replay"""
    fails = []
    pl = prog.pipeline()
    if pl[0] == "refused":
        return fails, "refused"
    if pl[0] == "error":
        fails.append({"kind": "pipeline-error", "signature": f"pipeline:{pl[1]}:{exc_signature(pl[2])}", "detail": repr(pl[2])[:200]})
        return fails, "error"
    fn = pl[1]
    if E is not None:
        args, argvars = s2.sym_args(E)
        env1, env2 = s2.Env(E, raising=raising), s2.Env(E, raising=raising)
    else:
        args = s2.concrete_args(desc_base["args"])
        argvars = []
        raising = any(k.startswith("raise:") for k in desc_base["ext"])
        env1, env2 = s2.Env(None, concrete=desc_base["ext"], raising=raising), s2.Env(None, concrete=desc_base["ext"], raising=raising)
    o1 = prog.run(prog.orig_fn, args, env1)
    if o1[0] == "unwind":
        return fails, "unwind"
    # the primary round trip, then the round trips through the other input forms / repeated conversions that gave
    # another text (none on a tree where conversion is a pure function of the source)
    candidates = [("str#1", fn, env2)]
    for label, st in prog.pipeline_forms():
        if st[0] == "ok":
            e3 = s2.Env(E, raising=raising) if E is not None else s2.Env(None, concrete=desc_base["ext"], raising=raising)
            candidates.append((label, st[1], e3))
        elif st[0] == "error":
            fails.append({"kind": "pipeline-error", "signature": f"pipeline:form={label.split('#')[0]}:{st[1]}:{exc_signature(st[2])}",
                          "detail": f"round trip {label} of the same function: {st[2]!r}"[:200]})
            return fails, "error"
    for label, fn_i, env_i in candidates:
        o2 = prog.run(fn_i, args, env_i)
        mism = s2.compare_runs(E, o1, env1.log, o2, env_i.log, ctx)
        for kind, detail in mism:
            if kind == "inconclusive":
                if ctx is not None:
                    ctx.extra["inconclusive"] += 1
                continue
            inp = None
            if E is not None:
                inp = s2.model_inputs(E, argvars, [env1, env_i])
            cs = s2.causes(prog.src)
            if not (o2 == ("ret", None) or o2 == ("exc", "TypeError") or o1 == ("exc", "UnboundLocalError")):
                # D12 explains a mismatch only when None surfaced or the original left the target unbound
                cs = [c for c in cs if not c.startswith("D12")]
            if not (o1 == ("exc", "UnboundLocalError") and o2 == ("exc", "NameError")):
                # D18 explains exactly this pair of exception types
                cs = [c for c in cs if not c.startswith("D18")]
            sig = "behaviour:" + ("+".join(cs) if cs else kind)
            fails.append({"kind": "behaviour", "signature": sig, "detail": f"[{label}] {kind}: {detail}"[:300], "inputs": inp})
            return fails, "compared"
    return fails, "compared"


def harness_for(gen_factory, raising=False):
    def harness(E, ctx, aux):
        ch = s2.Chooser(E, getattr(ctx, "cube", ()))
        g = gen_factory(ch)
        src = g.program()
        prog = s2.Program.get(src)
        ctx.current = {"src": src, "args": None, "ext": {}}
        if prog.orig_error is not None:
            ctx.feature("generator-produced-invalid-python")
            return
        fails, status = one_path(E, ctx, prog, None, raising)
        ctx.evaluations += 1
        key = ("seen", src)
        if not hasattr(ctx, "_seen"):
            ctx._seen = set()
        if src not in ctx._seen:
            ctx._seen.add(src)
            ctx.feature("programs")
            ctx.feature("pipeline:" + prog.pipeline()[0])
            for k in getattr(g, "kinds_used", []):
                ctx.feature("stmt:" + k)
            if getattr(g, "position", None):
                ctx.feature("position:" + g.position)
            if prog.pipeline()[0] == "ok":
                ctx.nontrivial += 1
                ctx.sample({"src": src, "regenerated": prog.pipeline()[4]}, cap=1)
        ctx.feature("path:" + status)
        for f in fails:
            desc = {"src": src}
            if f.get("inputs"):
                desc.update(f["inputs"])
            else:
                desc.update({"args": None, "ext": {}})
            ctx.fail(f["kind"], f["signature"], desc, f["detail"])
    harness.factory = gen_factory
    harness.raising = raising
    return harness


def _job(name, factory, depth, bounds, budget, required=True, raising=False):
    if raising:
        bounds = dict(bounds, external_calls="each dynamic external call may raise (one z3 boolean per call)")
    return Job(name=name, space=lambda: (None, [], None), harness=harness_for(factory, raising), bounds=bounds, budget_s=budget,
               required=required, cubes_fn=lambda: s2.enum_prefixes(lambda ch: factory(ch).program(), depth), path_timeout_s=20.0)


def jobs(tier):
    loopjob = _job("S2-loops-nested-terminators", lambda ch: s2.LoopGen(ch), 2, {"space": "S2-loops", "programs": "outer loop x inner loop x place x terminator x guarded"}, 900)
    passjob = _job("S2-ctl-c2-pass-bodies", lambda ch: s2.CtlGen(ch, 2, 2, 1, pass_bodies=("all" if tier == "quick" else True)), 3,
                   {"space": "S2-ctl", "compounds<=": 2, "terminators<=": 1, "bodies": "pass only (quick) / marker or pass (thorough)"}, 900)
    passjob2 = _job("S2-ctl-c1-pass-bodies-argtests", lambda ch: s2.CtlGen(ch, 1, 2, 0, arg_tests=True, pass_bodies="all"), 2,
                    {"space": "S2-ctl", "compounds<=": 1, "bodies": "pass only", "tests": "external calls, comparisons (also of calls), not, attribute, subscript, raising subscript"}, 600)
    forjob = _job("S2-for-target", lambda ch: s2.ForGen(ch), 2, {"space": "S2-for", "programs": "pre-assignment x iterable x body x else x use of the target after the loop"}, 600)
    raisejobs = [
        _job("S2-expr-d1-raising-operands", lambda ch: s2.ExprGen(ch, 1, rich_leaves=True), 2,
             {"space": "S2-expr", "expression depth<=": 1, "positions": s2.ExprGen.POSITIONS}, 600, raising=True),
        _job("S2-ctl-c1-raising-tests", lambda ch: s2.CtlGen(ch, 1, 2, 1), 2, {"space": "S2-ctl", "compounds<=": 1}, 600, raising=True),
    ]
    # bodies in which a compound statement may END an arm (no marker statement after it): a loop region / an if as the
    # last predecessor of a join is what region-predecessor re-targeting in the restructurer depends on
    barejobs = [
        _job("S2-ctl-c2-d2-t1-bare", lambda ch: s2.CtlGen(ch, 2, 2, 1, trail="never"), 3,
             {"space": "S2-ctl", "compounds<=": 2, "depth<=": 2, "terminators<=": 1, "marker after a compound": "never"}, 900),
        _job("S2-ctl-c3-core-kinds-bare", lambda ch: s2.CtlGen(ch, 3, 2, 1, kinds=["if", "ifelse", "while"], trail="never"), 4,
             {"space": "S2-ctl", "compounds<=": 3, "kinds": ["if", "ifelse", "while"], "depth<=": 2, "terminators<=": 1, "marker after a compound": "never"}, 1800),
    ]
    c3t2 = (_job("S2-ctl-c3-t2-if-while-bare", lambda ch: s2.CtlGen(ch, 3, 2, 2, kinds=["if", "while"], trail="never"), 4,
                         {"space": "S2-ctl", "compounds<=": 3, "kinds": ["if", "while"], "depth<=": 2, "terminators<=": 2, "marker after a compound": "never"}, 1800))
    armloop = _job("S2-loop-in-branch-arm", lambda ch: s2.ArmLoopGen(ch), 3,
                   {"space": "S2-armloop", "programs": "loop kind x two guarded terminators / plain branches in the body x loop else x statement before / after the loop in the arm x other arm (none, marker, early return, return)"}, 900)
    deadscope = _job("S2-names-bound-only-in-dead-code", lambda ch: s2.DeadScopeGen(ch), 1,
                     {"space": "S2-deadscope", "programs": "an assignment behind return / break / continue x a read of that name in live code"}, 300)
    seqloop = _job("S2-multi-exit-loop-then-branching-code", lambda ch: s2.SeqLoopGen(ch), 3,
                   {"space": "S2-seqloop", "programs": "loop kind x two guarded terminators / plain branches x loop else x what follows (second loop with early return / break, nested if with return, if-return, if-else returns)"}, 900)
    deadcode = _job("S2-dead-compound-statements", lambda ch: s2.DeadCodeGen(ch), 1,
                    {"space": "S2-deadcode", "programs": "a loop / if behind return / break / continue of the same statement list"}, 300)
    barejobs = barejobs + [armloop, seqloop, deadscope, deadcode] + ([c3t2] if tier != "quick" else [])
    if tier == "quick":
        return raisejobs + barejobs + [forjob, loopjob, passjob, passjob2,
            _job("S2-ctl-c2-d2-t1", lambda ch: s2.CtlGen(ch, 2, 2, 1), 3,
                 {"space": "S2-ctl", "compounds<=": 2, "depth<=": 2, "terminators<=": 1, "tests": "external calls"}, 900),
            _job("S2-ctl-c1-argtests", lambda ch: s2.CtlGen(ch, 1, 2, 2, arg_tests=True), 2,
                 {"space": "S2-ctl", "compounds<=": 1, "terminators<=": 2, "tests": "external calls, comparisons, not, attribute, subscript"}, 600),
            _job("S2-expr-d1", lambda ch: s2.ExprGen(ch, 1, rich_leaves=True), 2,
                 {"space": "S2-expr", "expression depth<=": 1, "positions": s2.ExprGen.POSITIONS}, 600),
            _job("S2-expr-d2-quick-inner", lambda ch: s2.ExprGen(ch, 2), 3,
                 {"space": "S2-expr", "expression depth<=": 2, "inner ops": s2.ExprGen.INNER_QUICK, "positions": s2.ExprGen.POSITIONS}, 900),
        ]
    return raisejobs + barejobs + [forjob, loopjob, passjob, passjob2,
        _job("S2-ctl-c3-choose-trailing-markers", lambda ch: s2.CtlGen(ch, 3, 2, 1, kinds=["if", "ifelse", "while", "for"], trail="choose"), 4,
             {"space": "S2-ctl", "compounds<=": 3, "kinds": ["if", "ifelse", "while", "for"], "depth<=": 2, "terminators<=": 1, "marker after a compound": "optional"}, 1800, required=False),
        _job("S2-ctl-c3-core-kinds", lambda ch: s2.CtlGen(ch, 3, 2, 1, kinds=["if", "ifelse", "while"]), 3,
             {"space": "S2-ctl", "compounds<=": 3, "kinds": ["if", "ifelse", "while"], "depth<=": 2, "terminators<=": 1}, 1800),
        _job("S2-ctl-c2-d3-t2", lambda ch: s2.CtlGen(ch, 2, 3, 2), 3,
             {"space": "S2-ctl", "compounds<=": 2, "depth<=": 3, "terminators<=": 2, "tests": "external calls"}, 1800),
        _job("S2-ctl-c2-argtests", lambda ch: s2.CtlGen(ch, 2, 2, 1, arg_tests=True), 3,
             {"space": "S2-ctl", "compounds<=": 2, "terminators<=": 1, "tests": "external calls, comparisons, not, attribute, subscript, unbound name"}, 1800, required=False),
        _job("S2-ctl-c3-d3-t2", lambda ch: s2.CtlGen(ch, 3, 3, 2), 4,
             {"space": "S2-ctl", "compounds<=": 3, "depth<=": 3, "terminators<=": 2, "tests": "external calls"}, 1500, required=False),
        _job("S2-expr-d1", lambda ch: s2.ExprGen(ch, 1, rich_leaves=True), 2,
             {"space": "S2-expr", "expression depth<=": 1, "positions": s2.ExprGen.POSITIONS}, 600),
        _job("S2-expr-d2-thorough-inner", lambda ch: s2.ExprGen(ch, 2, inner_ops=s2.ExprGen.INNER_THOROUGH), 3,
             {"space": "S2-expr", "expression depth<=": 2, "inner ops": s2.ExprGen.INNER_THOROUGH, "positions": s2.ExprGen.POSITIONS}, 1800, required=False),
    ]


def replay(desc):
    prog = s2.Program(desc["src"])
    if desc.get("args") is None:
        pl = prog.pipeline()
        if pl[0] == "error":
            return [{"kind": "pipeline-error", "signature": f"pipeline:{pl[1]}:{exc_signature(pl[2])}", "detail": repr(pl[2])[:200]}]
        for label, st in prog.pipeline_forms():
            if st[0] == "error":
                return [{"kind": "pipeline-error", "signature": f"pipeline:form={label.split('#')[0]}:{st[1]}:{exc_signature(st[2])}", "detail": repr(st[2])[:200]}]
        return []
    fails, status = one_path(None, None, prog, desc)
    return fails

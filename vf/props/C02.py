"""C02 - restructuring accepts every closed CFG (no exception, terminates)."""
import signal

from vf.s1common import s1_jobs, exc_signature, graph_features, front_end_jobs
from vf.oracles.hier import build_scfg, STAGES

PROPERTY = "C02"
LEVEL = "model_checking"
RULE = ("every closed CFG of the S1 space inside the stated bound, one per solver-enumerated path; "
        "non-trivial = the graph has a cycle or a two-way branch (restructuring has to insert something)")
FUNCTIONS = [
    "numba_scfg.core.datastructures.scfg:SCFG.join_returns",
    "numba_scfg.core.datastructures.scfg:SCFG.restructure_loop",
    "numba_scfg.core.datastructures.scfg:SCFG.restructure_branch",
    "numba_scfg.core.datastructures.scfg:SCFG.restructure",
    "numba_scfg.core.transformations:loop_restructure_helper",
    "numba_scfg.core.transformations:extract_region",
    "numba_scfg.core.transformations:restructure_branch",
    "numba_scfg.core.datastructures.basic_block:SyntheticBranch.replace_jump_targets",
    "numba_scfg.core.datastructures.scfg:SCFG.insert_block",
]
ASSUMPTIONS = [
    "input domain: closed CFGs, <= 2 ordered distinct successors per block, names b0..b{N-1} (all labellings)",
    "nothing is claimed for graphs outside the stated block bound; random graphs 'well beyond' and the stdlib corpus are sampling (another family)",
    "non-termination = a path exceeding 10 s and again 100 s of wall clock (slowest legitimate path < 50 ms)",
]


def check(desc):
    fails = []
    # each stage prefix on a fresh graph, then the public one-shot entry point
    for k in (1, 2, 3):
        g = build_scfg(desc)
        try:
            for s in STAGES[:k]:
                stage = s
                getattr(g, s)()
        except Exception as e:
            fails.append({"kind": "exception", "signature": f"{stage}:{exc_signature(e)}", "detail": repr(e)[:200]})
            break
    if not fails:
        g = build_scfg(desc)
        try:
            g.restructure()
        except Exception as e:
            fails.append({"kind": "exception", "signature": f"restructure:{exc_signature(e)}", "detail": repr(e)[:200]})
    return fails


def harness(E, ctx, aux, desc):
    feats = graph_features(desc)
    for f in feats:
        ctx.feature(f)
    if "has-loop" in feats or "has-branch" in feats:
        ctx.nontrivial += 1
    ctx.evaluations += 1
    ctx.sample(desc)
    for f in check(desc):
        ctx.fail(f["kind"], f["signature"], desc, f["detail"])


def jobs(tier):
    return s1_jobs(tier, harness, with_routes=False) + front_end_jobs(tier, harness)


def replay(desc):
    def _alarm(*a):
        raise TimeoutError()
    signal.signal(signal.SIGALRM, _alarm)
    signal.alarm(120)
    try:
        return check(desc)
    except TimeoutError:
        return [{"kind": "timeout", "signature": "non-termination", "detail": "replay exceeded 120 s"}]
    finally:
        signal.alarm(0)

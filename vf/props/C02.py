"""C02 - restructuring accepts every closed CFG (no exception, terminates)."""
import signal

from vf.s1common import s1_jobs, exc_signature, graph_features, front_end_jobs
from vf.oracles.hier import build_scfg, STAGES, staged, route_stages

PROPERTY = "C02"
LEVEL = "model_checking"
RULE = ("every closed CFG of the S1 space inside the stated bound, one per solver-enumerated path; "
        "non-trivial = the graph has a cycle or a two-way branch (restructuring has to insert something)")
FUNCTIONS = [
    "numba_scfg.core.datastructures.scfg:SCFG.join_returns",
    "numba_scfg.core.datastructures.scfg:SCFG.restructure_loop",
    "numba_scfg.core.datastructures.scfg:SCFG.restructure_branch",
    "numba_scfg.core.datastructures.scfg:SCFG.restructure",
    "numba_scfg.core.transformations:loop_restructure_helper",
    "numba_scfg.core.transformations:extract_region",
    "numba_scfg.core.transformations:restructure_branch",
    "numba_scfg.core.datastructures.basic_block:SyntheticBranch.replace_jump_targets",
    "numba_scfg.core.datastructures.scfg:SCFG.insert_block",
]
ASSUMPTIONS = [
    "input domain: closed CFGs, <= 2 ordered distinct successors per block, names b0..b{N-1} (all labellings)",
    "nothing is claimed for graphs outside the stated block bound; random graphs 'well beyond' and the stdlib corpus are sampling (another family)",
    "non-termination = a path exceeding 10 s and again 100 s of wall clock (slowest legitimate path < 50 ms)",
]


def check(desc):
    fails = []
    # each stage prefix on a fresh graph, then the public one-shot entry point
    route = desc.get("route") or "direct"
    for k in route_stages(desc, (1, 2, 3)):
        try:
            staged(desc, "basic", k)
        except Exception as e:
            stage = STAGES[k - 1] + ("" if route == "direct" else ":after-" + route)
            fails.append({"kind": "exception", "signature": f"{stage}:{exc_signature(e)}", "detail": repr(e)[:200]})
            break
    if not fails and route == "direct":
        g = build_scfg(desc)
        try:
            g.restructure()
        except Exception as e:
            fails.append({"kind": "exception", "signature": f"restructure:{exc_signature(e)}", "detail": repr(e)[:200]})
    return fails


def harness(E, ctx, aux, desc):
    feats = graph_features(desc)
    for f in feats:
        ctx.feature(f)
    if "has-loop" in feats or "has-branch" in feats:
        ctx.nontrivial += 1
    ctx.evaluations += 1
    ctx.sample(desc)
    for f in check(desc):
        ctx.fail(f["kind"], f["signature"], desc, f["detail"])


# ---------------------------------------------------------------------------
# scale families: the property says "terminates" for graphs of any size; parametric shapes with a solver-chosen size


def _chain(k, first="c"):
    return {f"{first}{i}": ([f"{first}{i+1}"] if i < k - 1 else []) for i in range(k)}


def fam_chain(k):
    return _chain(k)


def fam_diamonds(k):
    d = {}
    for i in range(k):
        nxt = f"h{i+1}" if i < k - 1 else "end"
        d[f"h{i}"] = [f"l{i}", f"r{i}"]
        d[f"l{i}"] = [nxt]
        d[f"r{i}"] = [nxt]
    d["end"] = []
    return d


def fam_branch_then_chain(k):
    d = {"s": ["a", "b"], "a": ["c0"], "b": ["c0"]}
    d.update(_chain(k))
    return d


def fam_nested_loops(k):
    d = {"s": ["h0"]}
    for i in range(k):
        d[f"h{i}"] = [f"h{i+1}" if i < k - 1 else "body", f"x{i}"]
        d[f"x{i}"] = [f"h{i-1}"] if i > 0 else []
    d["body"] = [f"h{k-1}"]
    return d


def fam_loop_sequence(k):
    d = {"s": ["w0"]}
    for i in range(k):
        d[f"w{i}"] = [f"b{i}", f"w{i+1}" if i < k - 1 else "end"]
        d[f"b{i}"] = [f"w{i}"]
    d["end"] = []
    return d


def fam_ladder(k):
    # two rails with rungs in both directions: irreducible regions of growing size
    d = {"s": ["p0", "q0"]}
    for i in range(k):
        d[f"p{i}"] = [f"p{i+1}" if i < k - 1 else "end", f"q{i}"]
        d[f"q{i}"] = [f"q{i+1}" if i < k - 1 else "end", f"p{i}"]
    d["end"] = []
    return d


SCALE = [
    ("chain", fam_chain, [50, 300, 1100]),
    ("diamond-chain", fam_diamonds, [4, 12, 20, 28, 36]),
    ("branch-then-chain", fam_branch_then_chain, [50, 300, 1100]),
    ("nested-loops", fam_nested_loops, [2, 4, 6, 8, 10]),
    ("loop-sequence", fam_loop_sequence, [3, 9, 12, 30]),
    ("ladder", fam_ladder, [2, 3, 5, 8]),
]


def scale_space():
    import z3

    f, k = z3.Int("family"), z3.Int("size_index")
    cs = [f >= 0, f < len(SCALE), k >= 0]
    for i, (_, _, ks) in enumerate(SCALE):
        cs.append(z3.Implies(f == i, k < len(ks)))
    return z3.And(cs), [f, k], {"f": f, "k": k}


def scale_harness(E, ctx, aux):
    from vf.oracles.hier import is_closed

    fi = E.realize(aux["f"])
    ki = E.realize(aux["k"])
    name, fam, ks = SCALE[fi]
    g = fam(ks[ki])
    desc = {"names": list(g), "succ": [list(v) for v in g.values()], "family": f"{name}({ks[ki]})"}
    ctx.current = desc
    if not is_closed({n: tuple(s) for n, s in g.items()}):
        ctx.feature("scale-family-not-closed:" + name)  # a mistake in the family, not in the library
        return
    ctx.feature("scale:" + name)
    ctx.nontrivial += 1
    ctx.evaluations += 1
    for f in check(desc):
        ctx.fail(f["kind"], f["signature"], desc, f["detail"])


def jobs(tier):
    from vf.runner import Job

    scale = Job("scale-families", scale_space, scale_harness, budget_s=900, path_timeout_s=60.0,
                bounds={"space": "parametric closed CFGs with a solver-chosen size", "families": {n: ks for n, _, ks in SCALE},
                        "non-termination": "a path exceeding 60 s and again 600 s"})
    js = s1_jobs(tier, harness) + front_end_jobs(tier, harness)
    js.sort(key=lambda j: "S1-N5" in j.name)  # the large jobs last (stable)
    return js + [scale]


class _ReplayTimeout(BaseException):
    """not an Exception: must not be mistaken for an exception raised by the code under test"""


def replay(desc):
    def _alarm(*a):
        raise _ReplayTimeout()
    signal.signal(signal.SIGALRM, _alarm)
    signal.alarm(120)
    try:
        return check(desc)
    except _ReplayTimeout:
        return [{"kind": "timeout", "signature": "non-termination", "detail": "replay exceeded 120 s"}]
    finally:
        signal.alarm(0)

"""C12 - results are deterministic across processes and hash seeds."""
from vf import ndorder

ndorder.install()  # must happen before numba_scfg is imported in this process

import json
import os
import subprocess
import sys

import z3

from vf import seedrun, s2
from vf.runner import Job, VERIF
from vf.spaces import s1_space, realise_s1

PROPERTY = "C12"
LEVEL = "model_checking"
UNCONFIRMED_OK = True
NO_HISTORY_REPLAY = True  # every replay is a fresh process per hash seed; there is no in-process history
RULE = ("the hash seed acts on this library only through the iteration order of sets of strings; the modules are imported from /repo's source "
        "through an import hook that makes the order of every dynamic set-iteration event a schedule decision. Per input (closed CFGs of S1, "
        "S2 programs through AST2SCFG/restructure/SCFG2AST, compiled functions through ByteFlow) the baseline schedule (all ascending) is compared "
        "with EVERY single-event perturbation (reverse; all permutations for sets of <= 3 members; reverse + rotate above) and with the all-events-"
        "reversed schedule, through a canonical dump sensitive to names and dictionary order; a divergence is confirmed against real interpreters "
        "with up to 200 PYTHONHASHSEED values before it is reported; non-trivial = input with >= 1 perturbable event")
FUNCTIONS = [
    "numba_scfg.core.transformations:loop_restructure_helper",
    "numba_scfg.core.transformations:extract_region",
    "numba_scfg.core.transformations:find_branch_regions",
    "numba_scfg.core.transformations:find_tail_blocks",
    "numba_scfg.core.transformations:_find_dominators_internal",
    "numba_scfg.core.datastructures.scfg:SCFG.find_headers_and_entries",
    "numba_scfg.core.datastructures.scfg:SCFG.find_exiting_and_exits",
    "numba_scfg.core.datastructures.scfg:SCFG.insert_block_and_control_blocks",
    "numba_scfg.core.datastructures.scfg:SCFG.compute_scc",
    "numba_scfg.networkx_vendored.scc:scc",
    "numba_scfg.core.datastructures.ast_transforms:ASTCFG.prune_unreachable",
    "numba_scfg.core.datastructures.flow_info:FlowInfo.build_basicblocks",
]
ASSUMPTIONS = [
    "the only seed-dependent behaviour of this library is the iteration order of set / frozenset objects with non-integer members (dicts keep insertion order)",
    "schedules: single-event perturbations and global reversal; interactions of two or more independently permuted events are outside the claim",
    "a divergence found under the modelled schedule is reported only after two real PYTHONHASHSEED values give different dumps on the unmodified package; otherwise it is logged as unconfirmed (exit 0)",
]


def modes_for(size):
    if size <= 3:
        return list(range(1, ndorder._fact(size)))
    return ["desc", "rot"]


def explore(desc, max_events=400):
    """-> (divergences, n_events, n_runs)"""
    def run():
        try:
            return seedrun.compute(desc)
        except NotImplementedError:
            return "<refused>"
        except Exception as e:
            return "EXC:" + type(e).__name__

    base, events, sites = ndorder.run_with({}, run)
    div = []
    runs = 1
    for j, size in enumerate(events[:max_events]):
        for mode in modes_for(size):
            r, _, _ = ndorder.run_with({j: mode}, run)
            runs += 1
            if r != base:
                div.append({"event": j, "mode": mode, "site": sites[j]})
                break
    r, _, _ = ndorder.run_with({"*": "desc"}, run)
    runs += 1
    if r != base:
        div.append({"event": "*", "mode": "desc", "site": "all-events-reversed"})
    return div, len(events), runs


def _emit(ctx, desc):
    div, nev, runs = explore(desc)
    ctx.evaluations += runs
    ctx.extra["schedules_run"] += runs
    ctx.extra["events"] += nev
    if nev:
        ctx.nontrivial += 1
    ctx.sample({**desc, "perturbable_events": nev}, cap=1)
    seen = set()
    for d in div:
        sig = "divergence:" + str(d["site"])
        if sig in seen:
            continue
        seen.add(sig)
        ctx.fail("divergence", sig, {**desc, "schedule": d}, f"dump differs from the ascending baseline under {d}")


# name schemes: names without any digit, and names that share their trailing number pairwise (orderings "by index" or
# "by length" have ties on them; a tie leaves set order, i.e. hash order, in charge)
NAME_SCHEMES = {
    "words": ["entry", "header", "body", "latch", "tail", "exit"],
    "shared-index": ["a_0", "b_0", "a_1", "b_1", "a_2", "b_2"],
    "zero-padded": ["n1", "n01", "n001", "n0001", "n00001", "n000001"],  # equal under a "natural" (numeric) sort key
}


def graph_harness_for(scheme=None):
    def graph_harness(E, ctx, aux):
        d = realise_s1(E, aux)
        names, succ = d["names"], d["succ"]
        if scheme:
            m = dict(zip(names, NAME_SCHEMES[scheme]))
            names, succ = [m[n] for n in names], [[m[t] for t in s_] for s_ in succ]
        desc = {"kind": "graph", "names": names, "succ": succ}
        ctx.current = desc
        _emit(ctx, desc)
    return graph_harness


graph_harness = graph_harness_for()


def src_harness_for(factory, kind):
    def h(E, ctx, aux):
        ch = s2.Chooser(E, getattr(ctx, "cube", ()))
        src = factory(ch).program()
        desc = {"kind": kind, "src": src}
        ctx.current = desc
        if kind == "bytecode":
            ns = {}
            exec(compile(src, "<c12>", "exec"), ns)
            if ns["f"].__code__.co_exceptiontable:
                return
        _emit(ctx, desc)
    return h


MORE_SOURCES = [
    "def f(x, y):\n    for i in range(x):\n        if i == y:\n            return 1\n        if i > y:\n            return 2\n    return 3\n",
    "def f(x, y):\n    while x:\n        x -= 1\n        if x == y:\n            break\n        if x < y:\n            return 7\n        if x == 3:\n            continue\n        y += 1\n    else:\n        return 5\n    return x\n",
    "def f(x, y):\n    if x:\n        while y:\n            y -= 1\n    else:\n        while x < 5:\n            x += 1\n    return x + y\n",
    "def f(x, y):\n    for i in range(x):\n        for j in range(y):\n            if i == j:\n                return i\n            if j > 2:\n                break\n        else:\n            continue\n        y += 1\n    return y\n",
    "def f(x, y):\n    if x:\n        if y:\n            return 1\n        while x:\n            x -= 1\n    else:\n        y = 2\n    return y\n",
]


def extra_harness(E, ctx, aux):
    from vf.props.C09 import EXTRA_SOURCES

    i = E.realize(aux["i"])
    if i >= len(EXTRA_SOURCES):
        src = MORE_SOURCES[i - len(EXTRA_SOURCES)]
        _emit(ctx, {"kind": "source", "src": src})
        _emit(ctx, {"kind": "bytecode", "src": src})
        return
    src = EXTRA_SOURCES[i]
    ns = {}
    exec(compile(src, "<c12>", "exec"), ns)
    if ns["f"].__code__.co_exceptiontable:
        return
    _emit(ctx, {"kind": "bytecode", "src": src})


def jobs(tier):
    from vf.props.C09 import EXTRA_SOURCES

    def gj(name, N, entry=None, max_edges=None, budget=900, required=True, require_edges=None, features=None, scheme=None):
        return Job(name, lambda: s1_space(N, entry=entry, max_edges=max_edges, require_edges=require_edges, features=features), graph_harness_for(scheme),
                   bounds={"space": "S1", "blocks": N, "entry": "any" if entry is None else f"b{entry}", "max_edges": max_edges, "required_edges": require_edges,
                           "required_shape_features": features, "names": NAME_SCHEMES[scheme][:N] if scheme else f"b0..b{N-1}",
                           "schedules": "every single-event perturbation + global reversal"}, budget_s=budget, required=required)

    def pj(name, factory, depth, kind, bounds, budget=900, required=True):
        return Job(name=name, space=lambda: (None, [], None), harness=src_harness_for(factory, kind), bounds=bounds, budget_s=budget, required=required,
                   cubes_fn=lambda: s2.enum_prefixes(lambda ch: factory(ch).program(), depth), path_timeout_s=60)

    def xspace():
        i = z3.Int("i")
        return z3.And(i >= 0, i < len(EXTRA_SOURCES) + len(MORE_SOURCES)), [i], {"i": i}

    js = [gj("S1-N3-all-entries", 3), gj("S1-N4-all-entries", 4)]
    js.append(gj("S1-N4-entry-b0-names-without-digits", 4, 0, scheme="words"))
    js.append(gj("S1-N4-entry-b0-names-sharing-an-index", 4, 0, scheme="shared-index"))
    js.append(gj("S1-N4-entry-b0-le5-edges-names-differing-in-zero-padding", 4, 0, max_edges=5, scheme="zero-padded"))
    # a loop with two headers reached from two different entry blocks (needs 5 blocks): the solver supplies exactly those graphs
    js.append(gj("S1-N5-entry-b0-two-headers-two-entries-le6-edges", 5, 0, max_edges=6, features={"headers": 2, "entries": 2}))
    js.append(pj("source-S2-ctl-c1", lambda ch: s2.CtlGen(ch, 1, 2, 1), 3, "source", {"space": "S2-ctl", "compounds<=": 1, "pipeline": "AST2SCFG, restructure, SCFG2AST text"}))
    js.append(Job("hand-written-functions", xspace, extra_harness, bounds={"bytecode_functions": len(EXTRA_SOURCES), "multi_exit_sources_both_front_ends": len(MORE_SOURCES)}, budget_s=600, path_timeout_s=120))
    if tier == "thorough":
        js.append(gj("S1-N5-entry-b0-le6-edges", 5, 0, max_edges=6, budget=2400))
        js.append(gj("S1-N5-entry-b0-multi-exit-loop-le7-edges", 5, 0, max_edges=7, features={"exit_targets": 2, "exiting": 2, "min_size": 2}, budget=1800, required=False))
        js.append(gj("F6-two-entry-arms-le7-edges", 6, 0, max_edges=7, budget=1200, required=False,
                     require_edges=[(0, 1), (0, 2), (1, 3), (2, 4)]))
        js.append(pj("source-S2-expr-d1", lambda ch: s2.ExprGen(ch, 1, rich_leaves=True), 2, "source", {"space": "S2-expr", "depth<=": 1}, budget=1200))
        js.append(pj("bytecode-S2-ctl-c1", lambda ch: s2.CtlGen(ch, 1, 2, 1), 3, "bytecode", {"space": "compiled S2-ctl", "compounds<=": 1}, budget=1200))
    return js


def seed_hashes(desc, seeds):
    """hash of the dump under real hash seeds, unmodified package, one process per seed"""
    d = {k: v for k, v in desc.items() if k != "schedule"}
    arg = json.dumps(d)
    out = {}
    procs = []
    env0 = dict(os.environ)
    env0["PYTHONPATH"] = VERIF + os.pathsep + env0.get("PYTHONPATH", "")
    env0["PYTHONDONTWRITEBYTECODE"] = "1"
    seeds = list(seeds)
    while seeds or procs:
        while seeds and len(procs) < 16:
            sd = seeds.pop(0)
            env = dict(env0)
            env["PYTHONHASHSEED"] = str(sd)
            procs.append((sd, subprocess.Popen([sys.executable, "-m", "vf.seedrun", arg], stdout=subprocess.PIPE, stderr=subprocess.DEVNULL, env=env, text=True, cwd=VERIF)))
        sd, p = procs.pop(0)
        o, _ = p.communicate(timeout=300)
        out[sd] = o.strip()
        if len(set(out.values())) > 1:
            for _, q in procs:
                q.kill()
            break
    return out


def replay(desc):
    hs = seed_hashes(desc, range(0, 200))
    vals = {}
    for sd, h in hs.items():
        vals.setdefault(h, sd)
    if len(vals) > 1:
        two = sorted(vals.values())[:2]
        site = desc.get("schedule", {}).get("site", "?")
        return [{"kind": "divergence", "signature": "divergence:" + str(site),
                 "detail": f"PYTHONHASHSEED={two[0]} and PYTHONHASHSEED={two[1]} give different results on the unmodified package"}]
    return []

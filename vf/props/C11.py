"""C11 - unsupported source constructs are refused, never mistranslated."""
import ast
import textwrap

import z3

from vf.runner import Job
from vf.s1common import exc_signature

PROPERTY = "C11"
LEVEL = "model_checking"
RULE = ("cases: (statement class k over ALL subclasses of ast.stmt of the running interpreter outside the supported set, plus a nested def) x "
        "structural position {top, if-body, else-body, while-body, while-else, for-body, for-else, after-loop, elif-body} x nesting depth {1, 2} "
        "x input form {source string, list of AST nodes}, and non-function inputs; k, position, depth and form are z3 integers realised by the "
        "engine (finite space, exhausted); oracle: NotImplementedError and nothing else; non-trivial = every case")
FUNCTIONS = [
    "numba_scfg.core.datastructures.ast_transforms:AST2SCFG",
    "numba_scfg.core.datastructures.ast_transforms:unparse_code",
    "numba_scfg.core.datastructures.ast_transforms:AST2SCFGTransformer.transform",
    "numba_scfg.core.datastructures.ast_transforms:AST2SCFGTransformer.handle_ast_node",
    "numba_scfg.core.datastructures.ast_transforms:AST2SCFGTransformer.handle_function_def",
]
ASSUMPTIONS = [
    "supported set (property text + dispatcher): one top-level FunctionDef; Assign, AugAssign, Expr, Return, Pass, Break, Continue, If, While, For",
    "a statement class of the running interpreter for which the harness has no source template is reported as not covered (feature no-template:<class>), not as a violation",
    "unsupported expression kinds (yield, await, lambda, comprehensions) are not in the property's list and are not checked",
]

SUPPORTED = {"FunctionDef", "Assign", "AugAssign", "Expr", "Return", "Pass", "Break", "Continue", "If", "While", "For"}

TEMPLATES = {
    "AnnAssign": "z: int = 1",
    "Assert": "assert x",
    "AsyncFor": "async for i in x:\n    v += 1",
    "AsyncFunctionDef": "async def g():\n    v = 2",
    "AsyncWith": "async with x:\n    v += 1",
    "ClassDef": "class A:\n    v = 2",
    "Delete": "del x",
    "Global": "global gg",
    "Import": "import os",
    "ImportFrom": "from os import path",
    "Match": "match x:\n    case 1:\n        v += 1\n    case _:\n        v += 2",
    "Nonlocal": "nonlocal v",
    "Raise": "raise ValueError(x)",
    "Try": "try:\n    v += 1\nexcept Exception:\n    v += 2",
    "TryStar": "try:\n    v += 1\nexcept* Exception:\n    v += 2",
    "TypeAlias": "type T = int",
    "With": "with x:\n    v += 1",
    "FunctionDef": "def g():\n    v = 2\n    return v",  # nested definition
}

POSITIONS = ["top", "if-body", "else-body", "elif-body", "while-body", "while-else", "for-body", "for-else", "after-loop",
             "after-return", "after-break", "after-continue", "while-true-else", "while-true-body", "if-const-body", "first-statement", "last-statement"]
# dead AND nested: inside a compound statement that itself follows return / break / continue in the same statement list
POSITIONS += [f"{t}>{inner}" for t in ("after-return", "after-break", "after-continue") for inner in ("if-body", "else-body", "while-body", "for-else")]


def _subs(c):
    for s in c.__subclasses__():
        yield s
        yield from _subs(s)


def classes():
    names = sorted({s.__name__ for s in _subs(ast.stmt)} - SUPPORTED)
    return names + ["FunctionDef"]


def wrap(stmt, pos):
    if ">" in pos:
        outer, inner = pos.split(">")
        return wrap(wrap(stmt, inner), outer)
    s = textwrap.indent(stmt, "    ")
    if pos == "top":
        return stmt
    if pos == "if-body":
        return f"if x:\n{s}\nelse:\n    v += 3"
    if pos == "else-body":
        return f"if x:\n    v += 3\nelse:\n{s}"
    if pos == "elif-body":
        return f"if x:\n    v += 3\nelif y:\n{s}\nelse:\n    v += 4"
    if pos == "while-body":
        return f"while x:\n    x -= 1\n{s}"
    if pos == "while-else":
        return f"while x:\n    x -= 1\nelse:\n{s}"
    if pos == "for-body":
        return f"for i in range(x):\n{s}\n    v += i"
    if pos == "for-else":
        return f"for i in range(x):\n    v += i\nelse:\n{s}"
    if pos == "after-loop":
        return f"while x:\n    x -= 1\n{stmt}\nv += 5"
    if pos == "after-return":
        return f"if x:\n    return v\n{s}\nv += 5"
    if pos == "after-break":
        return f"while x:\n    x -= 1\n    break\n{s}"
    if pos == "after-continue":
        return f"for i in range(x):\n    v += i\n    continue\n{s}"
    if pos == "while-true-else":
        return f"while True:\n    x -= 1\n    if x < 0:\n        break\nelse:\n{s}"
    if pos == "while-true-body":
        return f"while 1:\n{s}\n    break"
    if pos == "if-const-body":
        return f"if 0:\n{s}\nv += 5"
    if pos in ("first-statement", "last-statement"):
        return stmt
    raise ValueError(pos)


def build_source(cls, pos, depth):
    body = wrap(TEMPLATES[cls], pos)
    if depth == 2:
        body = wrap(body, "if-body")
    if cls == "Nonlocal":
        # nonlocal needs an enclosing function scope to be valid Python
        inner = "def f(x, y):\n" + textwrap.indent("v2 = 0\n" + body + "\nreturn v", "    ")
        return inner, "def outer():\n    v = 0\n" + textwrap.indent(inner, "    ")
    if pos == "first-statement" and depth == 1:
        src = "def f(x, y):\n" + textwrap.indent(body, "    ") + "\n    v = 0\n    return v\n"
    elif pos == "last-statement" and depth == 1:
        src = "def f(x, y):\n    v = 0\n" + textwrap.indent(body, "    ") + "\n"
    else:
        src = "def f(x, y):\n    v = 0\n" + textwrap.indent(body, "    ") + "\n    return v\n"
    return src, src


NON_FUNCTIONS = [
    ("assignment-source", "x = 1\n"),
    ("empty-source", ""),
    ("class-source", "class A:\n    pass\n"),
    ("import-source", "import os\n"),
    ("expression-source", "x + 1\n"),
    ("two-functions-source", "def f():\n    return 1\ndef g():\n    return 2\n"),
    ("async-function-source", "async def f():\n    return 1\n"),
    ("ast-list-of-assign", "NODES:x = 1"),
    ("ast-list-of-class", "NODES:class A:\n    pass"),
    ("ast-list-of-two-functions", "NODES:def f():\n    return 1\ndef g():\n    return 2"),
    ("ast-list-of-two-functions-same-name", "NODES:def f():\n    return 1\ndef f():\n    return 2"),
    ("ast-list-of-three-functions", "NODES:def f():\n    return 1\ndef g():\n    return 2\ndef h():\n    return 3"),
    ("ast-list-function-then-assignment", "NODES:def f():\n    return 1\nx = 1"),
    ("ast-list-assignment-then-function", "NODES:x = 1\ndef f():\n    return 1"),
    ("ast-list-of-async-function", "NODES:async def f():\n    return 1"),
    ("ast-list-of-lambda-expression", "NODES:lambda: 1"),
    ("module-object", "MODULE"),
    ("blank-lines-source", "\n\n"),
    ("comment-only-source", "# def f(): pass\n"),
    ("empty-list", "EMPTYLIST"),
    ("integer", "INT"),
    ("none", "NONE"),
]


def run_case(case):
    from numba_scfg.core.datastructures.ast_transforms import AST2SCFG

    if case["kind"] == "stmt":
        src, valid = build_source(case["cls"], case["pos"], case["depth"])
        try:
            compile(valid, "<c11>", "exec")
        except SyntaxError as e:
            return "invalid-python", str(e)
        arg = src if case["form"] == "str" else ast.parse(src).body
    else:
        v = dict(NON_FUNCTIONS)[case["name"]]
        if v.startswith("NODES:"):
            arg = ast.parse(v[6:]).body
        elif v == "EMPTYLIST":
            arg = []
        elif v == "INT":
            arg = 42
        elif v == "NONE":
            arg = None
        elif v == "MODULE":
            arg = ast.parse("def f():\n    return 1\n")
        else:
            arg = v
    try:
        if case.get("api") == "transformer-unpruned":
            from numba_scfg.core.datastructures.ast_transforms import AST2SCFGTransformer

            g = AST2SCFGTransformer(arg, prune=False).transform_to_SCFG()
        else:
            g = AST2SCFG(arg)
    except NotImplementedError:
        return "refused", ""
    except Exception as e:
        return "wrong-exception", exc_signature(e) + " " + repr(e)[:100]
    return "accepted", f"{len(g.graph)} blocks"


def check(case):
    out, detail = run_case(case)
    if out in ("refused", "invalid-python"):
        return [], out
    what = case["cls"] if case["kind"] == "stmt" else "input:" + case["name"]
    sig = f"{what}:{out}" + (":" + detail.split(" ")[0] if out == "wrong-exception" else "")
    return [{"kind": "not-refused", "signature": sig, "detail": detail}], out


def space():
    k, p, d, f = z3.Int("cls"), z3.Int("pos"), z3.Int("depth"), z3.Int("form")
    n = len(classes())
    m = len(NON_FUNCTIONS)
    # k in [0, n): statement cases; k in [n, n + m): non-function inputs (pos = depth = form = 0)
    # f: 0 source string, 1 AST node list, 2 source string through AST2SCFGTransformer(prune=False)
    cs = z3.And(k >= 0, k < n + m, p >= 0, p < len(POSITIONS), d >= 1, d <= 2, f >= 0, f <= 2,
                z3.Implies(k >= n, z3.And(p == 0, d == 1, f != 1)))
    return cs, [k], {"k": k, "p": p, "d": d, "f": f}


def harness(E, ctx, aux):
    cl = classes()
    k = E.realize(aux["k"])
    p = E.realize(aux["p"])
    d = E.realize(aux["d"])
    f = E.realize(aux["f"])
    if k < len(cl):
        cls = cl[k]
        if cls not in TEMPLATES:
            ctx.feature("no-template:" + cls)
            return
        case = {"kind": "stmt", "cls": cls, "pos": POSITIONS[p], "depth": d, "form": "nodes" if f == 1 else "str",
                "api": "transformer-unpruned" if f == 2 else "AST2SCFG"}
        ctx.feature("class:" + cls)
    else:
        case = {"kind": "input", "name": NON_FUNCTIONS[k - len(cl)][0], "api": "transformer-unpruned" if f == 2 else "AST2SCFG"}
        ctx.feature("non-function-input")
    ctx.current = case
    fails, out = check(case)
    ctx.evaluations += 1
    ctx.feature("outcome:" + out)
    if out != "invalid-python":
        ctx.nontrivial += 1
    ctx.sample(case, cap=1)
    for fl in fails:
        ctx.fail(fl["kind"], fl["signature"], case, fl["detail"])


def jobs(tier):
    n = (len(classes())) * len(POSITIONS) * 2 * 3 + 2 * len(NON_FUNCTIONS)
    return [Job("unsupported-statements-and-inputs", space, harness,
                bounds={"classes": classes(), "positions": POSITIONS, "depth": [1, 2], "forms": ["source string", "AST node list", "source string via AST2SCFGTransformer(prune=False)"],
                        "non_function_inputs": [n for n, _ in NON_FUNCTIONS]}, budget_s=300, expect_paths=n)]


def replay(case):
    return check(case)[0]

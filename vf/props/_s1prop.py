"""Factory for S1 properties whose oracle is `errors = f(orig, graph, stage)`."""
from vf.s1common import s1_jobs, sig_of, graph_features, front_end_jobs, exc_signature
from vf.oracles.hier import build_scfg, orig_map, STAGES, flatten, regions, staged, route_stages


def make(oracle, stages=(1, 2, 3), payloads=("basic",), kind="structure", nontrivial=None, quick_n5_max_edges=None, front_ends=True, n5_routes=True):
    """oracle(desc, orig_blocks, g, k, payload) -> list of error tuples."""

    def check(desc):
        fails = []
        front = desc.get("kind") in ("source", "bytecode")
        for payload in (payloads[:1] if front else payloads):
            for k in route_stages(desc, stages):
                if payload == "ast" and (desc.get("route") or "direct") != "direct":
                    continue  # AST payloads have no dictionary form
                try:
                    g, orig_blocks = staged(desc, payload, k)
                except Exception as e:
                    # no graph, hence nothing of what the property promises about the result of this stage
                    fails.append({"kind": "skip", "signature": "", "detail": f"stage prefix {k} raised"})
                    fails.append({"kind": "stage-exception", "signature": f"s{k}:stage-exception:{exc_signature(e)}",
                                  "detail": f"stage prefix {k} ({desc.get('route') or 'direct'}) raised {type(e).__name__}: {e}"[:300]})
                    break
                try:
                    errs = oracle(desc, orig_blocks, g, k, payload)
                except Exception as e:
                    import traceback
                    errs = [("oracle-exception", type(e).__name__, traceback.format_exc()[-300:])]
                seen = set()
                for err in errs:
                    sg = f"s{k}:" + (f"{payload}:" if len(payloads) > 1 and not front else "") + sig_of(err)
                    if sg in seen:
                        continue
                    seen.add(sg)
                    fails.append({"kind": kind, "signature": sg, "detail": repr(err)[:300]})
        return fails

    def harness(E, ctx, aux, desc):
        for f in graph_features(desc):
            ctx.feature(f)
        ctx.evaluations += 1
        ctx.sample(desc)
        fs = check(desc)
        if any(f["kind"] == "skip" for f in fs):
            ctx.feature("stage-raised")
        if (desc.get("route") or "direct") != "direct":
            ctx.nontrivial += 1  # counted on the direct route of the same graph; routes differ in history only
            for f in fs:
                if f["kind"] != "skip":
                    ctx.fail(f["kind"], f["signature"], desc, f["detail"])
            return
        g = build_scfg(desc)
        try:
            g.restructure()
            nt = nontrivial(g, desc) if nontrivial else len(flatten(g)) > len(orig_map(desc))
            if nt:
                ctx.nontrivial += 1
            if regions(g):
                ctx.feature("result-has-regions")
        except Exception:
            pass
        for f in fs:
            if f["kind"] != "skip":
                ctx.fail(f["kind"], f["signature"], desc, f["detail"])

    def jobs(tier):
        js = s1_jobs(tier, harness, quick_n5_max_edges=quick_n5_max_edges, n5_routes=n5_routes)
        if front_ends:
            js += front_end_jobs(tier, harness)
        js.sort(key=lambda j: "S1-N5" in j.name)  # the large job last (stable): cheap jobs report first
        return js

    def replay(desc):
        return [f for f in check(desc) if f["kind"] != "skip"]

    return check, harness, jobs, replay


COMMON_FUNCTIONS = [
    "numba_scfg.core.datastructures.scfg:SCFG.join_returns",
    "numba_scfg.core.datastructures.scfg:SCFG.restructure_loop",
    "numba_scfg.core.datastructures.scfg:SCFG.restructure_branch",
    "numba_scfg.core.transformations:loop_restructure_helper",
    "numba_scfg.core.transformations:restructure_loop",
    "numba_scfg.core.transformations:extract_region",
    "numba_scfg.core.transformations:update_exiting",
    "numba_scfg.core.transformations:restructure_branch",
    "numba_scfg.core.transformations:find_branch_regions",
    "numba_scfg.core.transformations:find_tail_blocks",
    "numba_scfg.core.datastructures.scfg:SCFG.insert_block",
    "numba_scfg.core.datastructures.scfg:SCFG.insert_block_and_control_blocks",
    "numba_scfg.core.datastructures.scfg:SCFG.join_tails_and_exits",
    "numba_scfg.core.datastructures.basic_block:SyntheticBranch.replace_jump_targets",
]
COMMON_ASSUMPTIONS = [
    "input domain: closed CFGs (DESIGN section 9), <= 2 ordered distinct successors, all labellings b0..b{N-1}",
    "a stage that raises is C02's business and is skipped here (feature_counters.stage-raised)",
    "nothing claimed beyond the block bound of each job",
]

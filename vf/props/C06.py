"""C06 - control variables are assigned before use and in range."""
from vf.props._s1prop import make, COMMON_FUNCTIONS, COMMON_ASSUMPTIONS
from vf.oracles.hier import check_tables, flat_walk_check, orig_map, CTRL_KINDS

PROPERTY = "C06"
LEVEL = "model_checking"
RULE = ("one closed CFG per solver-enumerated path x stage prefix; static: every table value is a target and every target has a table entry; "
        "dynamic: complete search of the product (block, control valuation with a freshness bit per variable) - reaching a branching block with "
        "its variable unset, stale (latches) or outside the table keys is a violation; non-trivial = synthetic block inserted")
FUNCTIONS = COMMON_FUNCTIONS
ASSUMPTIONS = COMMON_ASSUMPTIONS + ["all paths of each explored graph are covered exactly (finite product, complete visited-set search)"]


def _oracle(desc, orig_blocks, g, k, payload):
    errs = list(check_tables(g))
    for err in flat_walk_check(orig_map(desc), g, fresh_bits=True):
        if err[0] in CTRL_KINDS:
            errs.append(err)
    return errs


check, harness, _jobs, _replay = make(_oracle, stages=(1, 2, 3))


def jobs(tier):
    from vf.props.C14 import edit_step_jobs

    js = _jobs(tier)
    return js[:2] + edit_step_jobs("tables") + js[2:]


def replay(desc):
    if desc.get("kind") == "edit-step":
        from vf.props.C14 import edit_step

        return edit_step(desc["pre"], desc["ops"], "tables")
    return _replay(desc)

"""C16 - iteration and the region-concealing view enumerate exactly the graph."""
from vf.props._s1prop import make, COMMON_FUNCTIONS, COMMON_ASSUMPTIONS
from vf.oracles.views import check_iter

PROPERTY = "C16"
LEVEL = "model_checking"
RULE = ("one closed CFG per solver-enumerated path x stage prefix {none, closed, loops, branches}; list(scfg) must be every block and region "
        "of the hierarchy exactly once (the very objects), head first; the concealed view of the top graph and of every sub-region must be exactly "
        "that graph's keys, once each, head first, every later item a successor of an earlier one; non-trivial = result has regions")
FUNCTIONS = COMMON_FUNCTIONS + [
    "numba_scfg.core.datastructures.scfg:SCFG.__iter__",
    "numba_scfg.core.datastructures.scfg:ConcealedRegionView.region_view_iterator",
    "numba_scfg.core.datastructures.scfg:ConcealedRegionView.__len__",
]
ASSUMPTIONS = COMMON_ASSUMPTIONS


def _oracle(desc, orig_blocks, g, k, payload):
    return check_iter(g)


def _nt(g, desc):
    from vf.oracles.hier import regions
    return bool(regions(g))


check, harness, _jobs, _replay = make(_oracle, stages=(0, 1, 2, 3), nontrivial=_nt, n5_routes=False)
# a graph handed over by a front end with blocks its head cannot reach is still a graph whose iteration must be complete
harness.wants_unclosed = True


# hand-built flat graphs with doubled arcs, self loops and external targets ("all graphs": what from_dict / from_yaml and a
# user's own constructor calls can produce); iteration needs the unique head, so graphs whose blocks are all reachable
# from one predecessor-free block


def check_flat(desc):
    from numba_scfg.core.datastructures.scfg import SCFG
    from numba_scfg.core.datastructures.basic_block import BasicBlock

    g = SCFG({n: BasicBlock(n, tuple(t)) for n, t in zip(desc["names"], desc["targets"])})
    fails, seen = [], set()
    for err in check_iter(g):
        sg = "flat:" + ":".join(str(x) for x in err[:2] if isinstance(x, str))
        if sg not in seen:
            seen.add(sg)
            fails.append({"kind": "structure", "signature": sg, "detail": repr(err)[:300]})
    return fails


def flat_harness(E, ctx, aux):
    from vf.spaces import realise_s4

    desc = realise_s4(E, aux)
    desc["kind"] = "flat-digraph"
    ctx.current = desc
    names, tg = desc["names"], desc["targets"]
    preds = {n: 0 for n in names}
    for n, t in zip(names, tg):
        for x in t:
            if x in preds and x != n or (x == n):
                preds[x] = preds.get(x, 0) + 1
    heads = [n for n in names if preds[n] == 0]
    if len(heads) != 1:
        ctx.feature("flat:no-unique-head (outside the domain of iteration)")
        return
    reach, st = {heads[0]}, [heads[0]]
    while st:
        x = st.pop()
        for y in tg[names.index(x)]:
            if y in preds and y not in reach:
                reach.add(y)
                st.append(y)
    if len(reach) != len(names):
        ctx.feature("flat:unreachable-blocks (outside the domain of iteration)")
        return
    ctx.evaluations += 1
    ctx.nontrivial += 1
    if any(len(set(t)) < len(t) for t in tg):
        ctx.feature("flat:doubled-arc")
    for f in check_flat(desc):
        ctx.fail(f["kind"], f["signature"], desc, f["detail"])


def jobs(tier):
    from vf.runner import Job
    from vf.spaces import s4_space

    js = _jobs(tier)
    js.insert(2, Job("flat-digraphs-N3-K3-doubled-arcs-self-loops", lambda: s4_space(3, 3, 5 if tier == "quick" else None), flat_harness,
                     bounds={"space": "S4 digraphs with a unique head from which every block is reachable", "blocks": 3, "slots": 3,
                             "max_edges": 5 if tier == "quick" else None}, budget_s=600))
    return js


def replay(desc):
    if desc.get("kind") == "flat-digraph":
        return check_flat(desc)
    return _replay(desc)

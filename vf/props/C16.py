"""C16 - iteration and the region-concealing view enumerate exactly the graph."""
from vf.props._s1prop import make, COMMON_FUNCTIONS, COMMON_ASSUMPTIONS
from vf.oracles.views import check_iter

PROPERTY = "C16"
LEVEL = "model_checking"
RULE = ("one closed CFG per solver-enumerated path x stage prefix {none, closed, loops, branches}; list(scfg) must be every block and region "
        "of the hierarchy exactly once (the very objects), head first; the concealed view of the top graph and of every sub-region must be exactly "
        "that graph's keys, once each, head first, every later item a successor of an earlier one; non-trivial = result has regions")
FUNCTIONS = COMMON_FUNCTIONS + [
    "numba_scfg.core.datastructures.scfg:SCFG.__iter__",
    "numba_scfg.core.datastructures.scfg:ConcealedRegionView.region_view_iterator",
    "numba_scfg.core.datastructures.scfg:ConcealedRegionView.__len__",
]
ASSUMPTIONS = COMMON_ASSUMPTIONS


def _oracle(desc, orig_blocks, g, k, payload):
    return check_iter(g)


def _nt(g, desc):
    from vf.oracles.hier import regions
    return bool(regions(g))


check, harness, jobs, replay = make(_oracle, stages=(0, 1, 2, 3), nontrivial=_nt)

"""C17 - rendering never fails and draws exactly the graph (DOT source only)."""
from vf.props._s1prop import make, COMMON_FUNCTIONS, COMMON_ASSUMPTIONS
from vf.oracles.views import check_dot

PROPERTY = "C17"
LEVEL = "model_checking"
RULE = ("one closed CFG per solver-enumerated path x payload {plain, AST} x stage prefix {none, closed, loops, branches}; the DOT text of "
        "SCFGRenderer is parsed (own tokenizer/parser) and compared with the hierarchy: one node per non-region block, one cluster per region "
        "nested as the regions are, one solid edge per jump target and one dashed edge per back edge drawn to the resolved header, labels carry "
        "name / assignments / variable and table / statements; non-trivial = result has regions")
FUNCTIONS = COMMON_FUNCTIONS + [
    "numba_scfg.rendering.rendering:ByteFlowRenderer.render_byteflow",
    "numba_scfg.rendering.rendering:ByteFlowRenderer.render_basic_block",
    "numba_scfg.rendering.rendering:ByteFlowRenderer.render_region_block",
    "numba_scfg.rendering.rendering:ByteFlowRenderer.render_control_variable_block",
    "numba_scfg.rendering.rendering:ByteFlowRenderer.render_branching_block",
    "numba_scfg.rendering.rendering:BaseRenderer.render_block",
    "numba_scfg.rendering.rendering:BaseRenderer.render_edges",
    "numba_scfg.rendering.rendering:SCFGRenderer.__init__",
    "numba_scfg.rendering.rendering:SCFGRenderer.render_region_block",
    "numba_scfg.rendering.rendering:SCFGRenderer.render_basic_block",
    "numba_scfg.rendering.rendering:SCFGRenderer.render_python_ast_block",
    "numba_scfg.rendering.rendering:SCFGRenderer.render_control_variable_block",
    "numba_scfg.rendering.rendering:SCFGRenderer.render_branching_block",
    "numba_scfg.core.datastructures.scfg:SCFG.__iter__",
]
ASSUMPTIONS = COMMON_ASSUMPTIONS + ["only Digraph.source is inspected (no dot binary, no PDF)"]


def _oracle(desc, orig_blocks, g, k, payload):
    from numba_scfg.rendering.rendering import SCFGRenderer
    try:
        src = SCFGRenderer(g).render_scfg().source
    except Exception as e:
        from vf.s1common import exc_signature
        return [("render-exception", exc_signature(e))]
    return check_dot(g, src)


def _nt(g, desc):
    from vf.oracles.hier import regions
    return bool(regions(g))


check, harness, _jobs, _replay = make(_oracle, stages=(0, 1, 2, 3), payloads=("basic", "ast"), nontrivial=_nt, quick_n5_max_edges=7)


# ---- ByteFlowRenderer on bytecode-derived graphs (payload summary = the block's instructions)


def check_byteflow(desc):
    import dis
    import re
    from numba_scfg.core.datastructures.byte_flow import ByteFlow
    from numba_scfg.rendering.rendering import ByteFlowRenderer
    from vf.oracles.hier import STAGES, flatten
    from vf.s1common import exc_signature, sig_of

    ns = {}
    exec(compile(desc["src"], "<c17>", "exec"), ns)
    fn = ns["f"]
    fails = []
    if fn.__code__.co_exceptiontable:
        return fails
    for k in (0, 1, 2, 3):
        flow = ByteFlow.from_bytecode(fn)
        try:
            for st in STAGES[:k]:
                getattr(flow.scfg, st)()
        except Exception:
            break
        try:
            src = ByteFlowRenderer().render_byteflow(flow).source
        except Exception as e:
            fails.append({"kind": "render", "signature": f"s{k}:byteflow:render-exception:" + exc_signature(e), "detail": repr(e)[:200]})
            continue
        errs = check_dot(flow.scfg, src)
        # payload summary: every instruction of a bytecode block is listed in its label
        from vf.oracles import dot as _dot
        try:
            g = _dot.parse(src)
            labels = {n: a.get("label", "") for n, a, _ in g.nodes}
            bcmap = {i.offset: i for i in dis.get_instructions(fn)}
            for n, b in flatten(flow.scfg).items():
                if type(b).__name__ == "PythonBytecodeBlock":
                    for off in range(b.begin, b.end, 2):
                        if off in bcmap and not re.search(r"(?<!\d)" + str(off) + r"(?!\d)[^\\\n]*" + bcmap[off].opname, labels.get(n, "")):
                            errs.append(("label-instruction", "PythonBytecodeBlock", n, off))
                            break
        except _dot.DotError:
            pass
        seen = set()
        for e in errs:
            sg = f"s{k}:byteflow:" + sig_of(e)
            if sg not in seen:
                seen.add(sg)
                fails.append({"kind": "render", "signature": sg, "detail": repr(e)[:300]})
    return fails


def check_handbuilt(desc):
    from numba_scfg.rendering.rendering import SCFGRenderer
    from vf.spaces import build_s4b
    from vf.s1common import exc_signature, sig_of

    g = build_s4b(desc)
    # domain: a unique head from which iteration (forward arcs only) reaches every block
    try:
        if {n for n, _ in g} != set(g.graph):
            return []
    except AssertionError:
        return []
    try:
        src = SCFGRenderer(g).render_scfg().source
    except Exception as e:
        return [{"kind": "render", "signature": "handbuilt:render-exception:" + exc_signature(e), "detail": repr(e)[:200]}]
    out, seen = [], set()
    for e in check_dot(g, src):
        sg = "handbuilt:" + sig_of(e)
        if sg not in seen:
            seen.add(sg)
            out.append({"kind": "render", "signature": sg, "detail": repr(e)[:300]})
    return out


def jobs(tier):
    import z3
    from vf.runner import Job
    from vf import s2
    from vf.props.C09 import EXTRA_SOURCES

    def xspace():
        i = z3.Int("i")
        return z3.And(i >= 0, i < len(EXTRA_SOURCES)), [i], {"i": i}

    def xh(E, ctx, aux):
        desc = {"kind": "byteflow", "src": EXTRA_SOURCES[E.realize(aux["i"])]}
        ctx.evaluations += 1
        ctx.nontrivial += 1
        for f in check_byteflow(desc):
            ctx.fail(f["kind"], f["signature"], desc, f["detail"])

    def factory(ch):
        return s2.CtlGen(ch, 1 if tier == "quick" else 2, 2, 1)

    def ph(E, ctx, aux):
        ch = s2.Chooser(E, getattr(ctx, "cube", ()))
        desc = {"kind": "byteflow", "src": factory(ch).program()}
        ctx.current = desc
        ctx.evaluations += 1
        ctx.nontrivial += 1
        ctx.sample(desc, cap=1)
        for f in check_byteflow(desc):
            ctx.fail(f["kind"], f["signature"], desc, f["detail"])

    from vf.spaces import s4b_space, realise_s4b, build_s4b

    def hb(E, ctx, aux):
        desc = realise_s4b(E, aux)
        ctx.current = desc
        ctx.evaluations += 1
        if any(b >= 0 for b in desc["backedge"]):
            ctx.nontrivial += 1
        for f in check_handbuilt(desc):
            ctx.fail(f["kind"], f["signature"], desc, f["detail"])

    js = _jobs(tier)
    js.append(Job("handbuilt-graphs-N3-with-declared-backedges", lambda: s4b_space(3), hb,
                  bounds={"space": "S4b hand-built graphs with declared back edges", "blocks": 3, "slots": 2, "renderer": "SCFGRenderer"}, budget_s=600))
    js.append(Job("byteflow-renderer-hand-written", xspace, xh, bounds={"renderer": "ByteFlowRenderer", "functions": len(EXTRA_SOURCES), "stages": [0, 1, 2, 3]}, budget_s=300))
    js.append(Job("byteflow-renderer-compiled-S2-ctl", lambda: (None, [], None), ph, bounds={"renderer": "ByteFlowRenderer", "space": "compiled S2-ctl", "stages": [0, 1, 2, 3]},
                  budget_s=900, cubes_fn=lambda: s2.enum_prefixes(lambda ch: factory(ch).program(), 3)))
    return js


def replay(desc):
    if desc.get("kind") == "byteflow":
        return check_byteflow(desc)
    if desc.get("kind") == "handbuilt":
        return check_handbuilt(desc)
    return _replay(desc)

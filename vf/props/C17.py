"""C17 - rendering never fails and draws exactly the graph (DOT source only)."""
from vf.props._s1prop import make, COMMON_FUNCTIONS, COMMON_ASSUMPTIONS
from vf.oracles.views import check_dot

PROPERTY = "C17"
LEVEL = "model_checking"
RULE = ("one closed CFG per solver-enumerated path x payload {plain, AST} x stage prefix {none, closed, loops, branches}; the DOT text of "
        "SCFGRenderer is parsed (own tokenizer/parser) and compared with the hierarchy: one node per non-region block, one cluster per region "
        "nested as the regions are, one solid edge per jump target and one dashed edge per back edge drawn to the resolved header, labels carry "
        "name / assignments / variable and table / statements; non-trivial = result has regions")
FUNCTIONS = COMMON_FUNCTIONS + [
    "numba_scfg.rendering.rendering:BaseRenderer.render_block",
    "numba_scfg.rendering.rendering:BaseRenderer.render_edges",
    "numba_scfg.rendering.rendering:SCFGRenderer.__init__",
    "numba_scfg.rendering.rendering:SCFGRenderer.render_region_block",
    "numba_scfg.rendering.rendering:SCFGRenderer.render_basic_block",
    "numba_scfg.rendering.rendering:SCFGRenderer.render_python_ast_block",
    "numba_scfg.rendering.rendering:SCFGRenderer.render_control_variable_block",
    "numba_scfg.rendering.rendering:SCFGRenderer.render_branching_block",
    "numba_scfg.core.datastructures.scfg:SCFG.__iter__",
]
ASSUMPTIONS = COMMON_ASSUMPTIONS + ["only Digraph.source is inspected (no dot binary, no PDF)"]


def _oracle(desc, orig_blocks, g, k, payload):
    from numba_scfg.rendering.rendering import SCFGRenderer
    try:
        src = SCFGRenderer(g).render_scfg().source
    except Exception as e:
        from vf.s1common import exc_signature
        return [("render-exception", exc_signature(e))]
    return check_dot(g, src)


def _nt(g, desc):
    from vf.oracles.hier import regions
    return bool(regions(g))


check, harness, jobs, replay = make(_oracle, stages=(0, 1, 2, 3), payloads=("basic", "ast"), nontrivial=_nt, quick_n5_max_edges=7)

"""C15 - dictionary and YAML serialisation round-trips every graph."""
import z3

from vf.runner import Job
from vf.s1common import exc_signature, s1_jobs, graph_features
from vf.oracles.hier import build_scfg, STAGES, regions

PROPERTY = "C15"
LEVEL = "model_checking"
RULE = ("graphs: every closed CFG of the S1 space x payload {plain, bytecode range} x stage prefix {none, closed, loops, branches}, plus "
        "bytecode-derived graphs of compiled functions at every stage prefix; per graph: to_dict / to_yaml must not raise, from_dict / from_yaml of "
        "the result must give a graph whose order-insensitive canonical dump (types, payload fields, successors IN ORDER, back edges, tables, "
        "assignments, nesting, headers, exiting) equals the original's; writing the re-read graph gives the same dictionary; chain write-read-write-read; "
        "non-trivial = graph with regions or synthetic blocks")
FUNCTIONS = [
    "numba_scfg.core.datastructures.scfg:SCFGIO.to_dict",
    "numba_scfg.core.datastructures.scfg:SCFGIO.to_yaml",
    "numba_scfg.core.datastructures.scfg:SCFGIO.from_dict",
    "numba_scfg.core.datastructures.scfg:SCFGIO.from_yaml",
    "numba_scfg.core.datastructures.scfg:SCFGIO.make_scfg",
    "numba_scfg.core.datastructures.scfg:SCFGIO.find_outer_graph",
    "numba_scfg.core.datastructures.scfg:SCFGIO.extract_block_info",
]
ASSUMPTIONS = [
    "block names are those the name generator and the front ends produce (b<i> for the plain S1 scheme)",
    "graphs of PythonASTBlocks are outside the claim: the property lists plain, synthetic, region and bytecode blocks; AST nodes have no dictionary form",
    "dictionary insertion order is not compared (the property does not promise it)",
]


def canon(scfg):
    from numba_scfg.core.datastructures.basic_block import RegionBlock

    out = {}
    for n, b in scfg.graph.items():
        rec = {
            "type": type(b).__name__,
            "targets": tuple(b._jump_targets),
            "backedges": tuple(b.backedges),
        }
        for f in ("begin", "end", "variable"):
            if hasattr(b, f):
                rec[f] = getattr(b, f)
        if hasattr(b, "branch_value_table"):
            rec["table"] = dict(b.branch_value_table)
        if hasattr(b, "variable_assignment"):
            rec["assign"] = dict(b.variable_assignment)
        if isinstance(b, RegionBlock):
            rec["kind"] = b.kind
            rec["header"] = b.header
            rec["exiting"] = b.exiting
            rec["sub"] = canon(b.subregion)
            pr = b.parent_region
            rec["parent-kind"] = getattr(pr, "kind", "not-a-region:" + type(pr).__name__)
        out[n] = rec
    return out


def diff(a, b, path=""):
    """first difference between two canonical dumps, as a short kind string"""
    if set(a) != set(b):
        return "blocks-differ", f"{path} missing={sorted(set(a)-set(b))[:3]} extra={sorted(set(b)-set(a))[:3]}"
    for n in a:
        for k in a[n]:
            if k == "sub":
                continue
            if a[n].get(k) != b[n].get(k):
                return f"{k}-differs:{a[n]['type']}", f"{path}{n}: {a[n].get(k)!r} vs {b[n].get(k)!r}"
        if "sub" in a[n]:
            if "sub" not in b[n]:
                return "nesting-differs", n
            d = diff(a[n]["sub"], b[n]["sub"], path + n + "/")
            if d:
                return d
    return None


def roundtrip(g, rest=()):
    """rest: the pipeline stages that have not been applied to g yet - they are applied to the RE-READ graph at the end,
    after which the source graph and the dictionary written from it must still be what they were (no shared state)"""
    import copy
    from numba_scfg.core.datastructures.scfg import SCFG
    from vf.oracles.hier import check_hier

    fails = []

    def fail(sig, detail):
        fails.append({"kind": "serialisation", "signature": sig, "detail": str(detail)[:300]})

    c0 = canon(g)
    try:
        d1 = g.to_dict()
    except Exception as e:
        fail("to_dict:" + exc_signature(e), repr(e))
        return fails
    try:
        g1, _ = SCFG.from_dict(d1)
    except Exception as e:
        fail("from_dict:" + exc_signature(e), repr(e))
        return fails
    try:
        c1 = canon(g1)
    except Exception as e:
        fail("reread-graph-malformed:" + exc_signature(e), repr(e))
        return fails
    d = diff(c0, c1)
    if d:
        fail("dict-roundtrip:" + d[0], d[1])
    # the re-read hierarchy must be as self-consistent as the one that was written (recorded parents are the
    # containing regions, sub-graphs know their region, ...): compared through the C04 oracle, new error kinds only
    try:
        e0 = {e[0] for e in check_hier(g)}
        for e in check_hier(g1):
            if e[0] not in e0:
                fail("reread-hierarchy:" + str(e[0]), repr(e)[:200])
                break
    except Exception as e:
        fail("reread-hierarchy:" + exc_signature(e), repr(e))
    d1_copy = copy.deepcopy(d1)
    try:
        d2 = g1.to_dict()
        if d2 != d1:
            fail("second-dict-differs", [k for k in d1 if d1[k] != d2.get(k)])
        g2, _ = SCFG.from_dict(d2)
        dd = diff(c0, canon(g2))
        if dd:
            fail("dict-chain:" + dd[0], dd[1])
    except Exception as e:
        fail("rewrite:" + exc_signature(e), repr(e))
    try:
        y1 = g.to_yaml()
    except Exception as e:
        fail("to_yaml:" + exc_signature(e), repr(e))
        return fails
    try:
        gy, _ = SCFG.from_yaml(y1)
        d = diff(c0, canon(gy))
        if d:
            fail("yaml-roundtrip:" + d[0], d[1])
        y2 = gy.to_yaml()
        if y2 != y1:
            fail("second-yaml-differs", "")
        gy2, _ = SCFG.from_yaml(y2)
        dd = diff(c0, canon(gy2))
        if dd:
            fail("yaml-chain:" + dd[0], dd[1])
    except Exception as e:
        fail("yaml:" + exc_signature(e), repr(e))
    # no state shared between the source graph, the dictionary and the re-read graph: go on restructuring the copy
    if rest:
        try:
            for st in rest:
                getattr(g1, st)()
        except Exception:
            pass  # C02 / C18 territory
        try:
            dd = diff(c0, canon(g))
            if dd:
                fail("source-graph-changed-by-work-on-the-reread-graph:" + dd[0], dd[1])
            if d1 != d1_copy:
                fail("dictionary-changed-by-work-on-the-reread-graph", [k for k in d1 if d1[k] != d1_copy.get(k)])
        except Exception as e:
            fail("source-graph-malformed-after-work-on-the-reread-graph:" + exc_signature(e), repr(e))
    return fails


def check(desc):
    fails = []
    if desc.get("kind") == "handbuilt":
        from vf.spaces import build_s4b

        for f in roundtrip(build_s4b(desc)):
            f["signature"] = "handbuilt:" + f["signature"]
            fails.append(f)
        return fails, any(b >= 0 for b in desc["backedge"]) or any(desc["targets"])
    if desc.get("kind") == "function":
        from numba_scfg.core.datastructures.byte_flow import ByteFlow

        ns = {}
        exec(compile(desc["src"], "<c15>", "exec"), ns)
        if ns["f"].__code__.co_exceptiontable:
            return fails, False  # outside the domain of the bytecode front end (C09)
        for k in (0, 1, 2, 3):
            g = ByteFlow.from_bytecode(ns["f"]).scfg
            try:
                for s in STAGES[:k]:
                    getattr(g, s)()
            except Exception:
                break
            for f in roundtrip(g, STAGES[k:]):
                f["signature"] = f"s{k}:bytecode:" + f["signature"]
                fails.append(f)
        return fails, True
    nt = False
    for payload in ("basic", "bytecode"):
        for k in (0, 1, 2, 3):
            g = build_scfg(desc, payload)
            try:
                for s in STAGES[:k]:
                    getattr(g, s)()
            except Exception:
                break
            if regions(g):
                nt = True
            for f in roundtrip(g, STAGES[k:]):
                f["signature"] = f"s{k}:{payload}:" + f["signature"]
                fails.append(f)
    return fails, nt


def _emit(ctx, desc, fails):
    seen = set()
    for f in fails:
        if f["signature"] in seen:
            continue
        seen.add(f["signature"])
        ctx.fail(f["kind"], f["signature"], desc, f["detail"])


def harness(E, ctx, aux, desc):
    for f in graph_features(desc):
        ctx.feature(f)
    ctx.evaluations += 1
    ctx.sample(desc)
    fails, nt = check(desc)
    if nt:
        ctx.nontrivial += 1
    _emit(ctx, desc, fails)


def fn_harness(E, ctx, aux):
    from vf.props.C09 import EXTRA_SOURCES

    i = E.realize(aux["i"])
    desc = {"kind": "function", "src": EXTRA_SOURCES[i]}
    ctx.evaluations += 1
    ctx.nontrivial += 1
    fails, _ = check(desc)
    _emit(ctx, desc, fails)


def jobs(tier):
    from vf.props.C09 import EXTRA_SOURCES

    def xspace():
        i = z3.Int("i")
        return z3.And(i >= 0, i < len(EXTRA_SOURCES)), [i], {"i": i}

    js = s1_jobs(tier, harness, quick_n5_max_edges=7, with_routes=False)
    js = js[:2] if tier == "quick" else js[:3]
    from vf.s1common import s1_job_maker, expected

    # numeric strings as names (the source front end's and the repository's YAML fixtures' convention); names that sort after the generated ones
    js.append(s1_job_maker(harness)("S1-N4-all-entries-numeric-names", 4, None, exp=expected(4, None), prefix=""))
    js.append(s1_job_maker(harness)("S1-N4-entry-b0-z-names", 4, 0, exp=expected(4, 0), prefix="z"))
    from vf.spaces import s4b_space, realise_s4b

    def hb(E, ctx, aux):
        desc = realise_s4b(E, aux)
        ctx.current = desc
        ctx.evaluations += 1
        fails, nt = check(desc)
        if nt:
            ctx.nontrivial += 1
        ctx.sample(desc, cap=1)
        _emit(ctx, desc, fails)

    js.append(Job("handbuilt-graphs-N3-with-declared-backedges", lambda: s4b_space(3), hb,
                  bounds={"space": "S4b hand-built graphs (cycles without entry, unreachable parts, declared back edges)", "blocks": 3, "slots": 2}, budget_s=600))
    js.append(Job("bytecode-functions", xspace, fn_harness, bounds={"functions": len(EXTRA_SOURCES), "stages": [0, 1, 2, 3]}, budget_s=300))
    return js


def replay(desc):
    return check(desc)[0]

"""C08 - the graph built from source means what the source means."""
import ast

from vf.runner import Job
from vf.s1common import exc_signature
from vf import s2
from vf.props.C07 import jobs as _c07_jobs  # same program spaces

PROPERTY = "C08"
LEVEL = "translation_validation"
RULE = ("programs: the bounded grammar S2 (control skeletons, expression forms in every position, for-target programs), enumerated by the solver; "
        "per program the CFG built by AST2SCFGTransformer (pruned and unpruned) is run by a block interpreter in the harness NEXT TO the original "
        "function on the same symbolic arguments and external-call results: results (solver query), exception types and call logs must agree on "
        "every path; plus a static census: every reachable statement in exactly one block, pruning removed only unreachable / no-op / empty things; "
        "non-trivial = a program that produced a CFG and was compared on >= 1 path")
FUNCTIONS = [
    "numba_scfg.core.datastructures.ast_transforms:AST2SCFGTransformer.transform",
    "numba_scfg.core.datastructures.ast_transforms:AST2SCFGTransformer.handle_ast_node",
    "numba_scfg.core.datastructures.ast_transforms:AST2SCFGTransformer.handle_expression",
    "numba_scfg.core.datastructures.ast_transforms:AST2SCFGTransformer.handle_bool_op",
    "numba_scfg.core.datastructures.ast_transforms:AST2SCFGTransformer.handle_if",
    "numba_scfg.core.datastructures.ast_transforms:AST2SCFGTransformer.handle_while",
    "numba_scfg.core.datastructures.ast_transforms:AST2SCFGTransformer.handle_for",
    "numba_scfg.core.datastructures.ast_transforms:AST2SCFGTransformer.seal_block",
    "numba_scfg.core.datastructures.ast_transforms:WritableASTBlock.seal_inside_loop",
    "numba_scfg.core.datastructures.ast_transforms:ASTCFG.prune_unreachable",
    "numba_scfg.core.datastructures.ast_transforms:ASTCFG.prune_noops",
    "numba_scfg.core.datastructures.ast_transforms:ASTCFG.prune_empty",
]
ASSUMPTIONS = [
    "block interpreter (harness, vf/s2.py BlockProgram): exec the block's statements; with two successors evaluate the last expression, first target if true; stop at a return - as the property prescribes",
    "arguments: integers x, y in [-4, 8], n in [0, 3], c.a / c[0] arbitrary integers; external calls return arbitrary integers",
    "unwinding cap 8 external calls / 40 events / 400 blocks per run; cut paths are counted, not claimed",
    "operands that raise are outside the claim (exceptions arise only from unbound names / None arithmetic)",
]

NOOP = (ast.Pass, ast.Break, ast.Continue)


def reachable_statements(fn):
    """(reachable simple statements, reachable tests) of a FunctionDef by Python's own
    flow rules: code after return/break/continue, after an if whose arms all leave,
    or after a loop that can only be left through a leaving else-clause is dead."""
    stmts, tests = [], []

    def block(body, loop):
        """visit a statement list; returns True if it can complete normally"""
        for st in body:
            if not visit(st, loop):
                return False
        return True

    def visit(st, loop):
        if isinstance(st, ast.Return):
            stmts.append(st)
            return False
        if isinstance(st, ast.Break):
            if loop is not None:
                loop["break"] = True
            return False
        if isinstance(st, ast.Continue):
            return False
        if isinstance(st, (ast.Assign, ast.AugAssign, ast.Expr)):
            stmts.append(st)
            return True
        if isinstance(st, ast.If):
            tests.append(st.test)
            a = block(st.body, loop)
            b = block(st.orelse, loop)
            return a or b
        if isinstance(st, (ast.While, ast.For)):
            if isinstance(st, ast.While):
                tests.append(st.test)
            inner = {"break": False}
            block(st.body, inner)
            e = block(st.orelse, loop)  # a break in the else clause binds to the outer loop
            return e or inner["break"]
        return True

    block(fn.body, None)
    return stmts, tests


def census(prog):
    errs = []
    st = prog.cfg(prune=True)
    if st[0] != "ok":
        return errs
    _, bp, astcfg, fn = st
    # a fresh parse, transformed from node objects we hold
    from numba_scfg.core.datastructures.ast_transforms import AST2SCFGTransformer

    tree = ast.parse(prog.src).body
    stmts, tests = reachable_statements(tree[0])
    # tests that are and/or are desugared, not kept
    tests = [t for t in tests if not isinstance(t, ast.BoolOp)]
    cfg = AST2SCFGTransformer(tree, prune=True).transform_to_ASTCFG()
    where = {}
    for name, b in cfg.items():
        for i in b.instructions:
            where.setdefault(id(i), []).append(name)
    # structural fall-back: a refactor may copy statement nodes instead of re-using them
    from collections import Counter
    block_dumps = Counter(ast.dump(i) for b in cfg.values() for i in b.instructions)
    stmt_dumps = Counter(ast.dump(s) for s in stmts)
    for s in stmts:
        n = len(where.get(id(s), []))
        if n != 1:
            d = ast.dump(s)
            if n == 0 and block_dumps.get(d, 0) == stmt_dumps[d]:
                continue
            errs.append(("statement-count", type(s).__name__, n, ast.unparse(s)[:40]))
    wrapped = {}
    for name, b in cfg.items():
        for i in b.instructions:
            if isinstance(i, ast.Expr):
                wrapped.setdefault(id(i.value), []).append(name)
    for t in tests:
        hits = where.get(id(t), [])
        whits = wrapped.get(id(t), [])
        if len(hits) + len(whits) != 1:
            errs.append(("test-count", type(t).__name__, len(hits) + len(whits), ast.unparse(t)[:40]))
        elif hits:
            b = cfg[hits[0]]
            if b.instructions[-1] is not t or len(b.jump_targets) != 2:
                errs.append(("test-not-last-of-branching-block", type(t).__name__, hits[0]))
        else:
            # both arms were empty: the branch collapsed, the test is kept as an expression statement
            b = cfg[whits[0]]
            if len(b.jump_targets) != 1 or not isinstance(b.instructions[-1], ast.Expr) or b.instructions[-1].value is not t:
                errs.append(("collapsed-test-not-last-of-fallthrough-block", type(t).__name__, whits[0]))
    # pruning: compare with the unpruned graph of a second fresh parse
    tree2 = ast.parse(prog.src).body
    U = AST2SCFGTransformer(tree2, prune=False).transform_to_ASTCFG()
    reach = set()
    todo = ["0"]
    while todo:
        n = todo.pop()
        if n in reach or n not in U:
            continue
        reach.add(n)
        todo += U[n].jump_targets

    def fwd(n, depth=0):
        # follow blocks that pruning removed as empty
        while n in U and n not in cfg and depth < 100:
            b = U[n]
            if [i for i in b.instructions if not isinstance(i, NOOP)] or len(b.jump_targets) != 1:
                return n
            n = b.jump_targets[0]
            depth += 1
        return n

    for name, ub in U.items():
        kept = [ast.dump(i) for i in ub.instructions if not isinstance(i, NOOP)]
        if name in cfg:
            got = [ast.dump(i) for i in cfg[name].instructions]
            want_t = [fwd(t) for t in ub.jump_targets]
            if len(want_t) == 2 and want_t[0] == want_t[1] and len(cfg[name].jump_targets) == 1:
                # both arms empty: collapsed to a fall-through, test kept as an expression statement
                want_t = want_t[:1]
                if kept and ub.instructions and isinstance(ub.instructions[-1], ast.expr):
                    kept = kept[:-1] + [ast.dump(ast.Expr(ub.instructions[-1]))]
            if got != kept:
                errs.append(("pruning-altered-block", name))
            if want_t != list(cfg[name].jump_targets):
                errs.append(("pruning-altered-targets", name, tuple(ub.jump_targets), tuple(cfg[name].jump_targets)))
            if name not in reach:
                errs.append(("unreachable-block-kept", name))
        else:
            if name in reach and kept:
                errs.append(("pruned-reachable-nonempty-block", name, kept[0][:40]))
    for name in cfg:
        if name not in U:
            errs.append(("block-invented-by-pruning", name))
    return errs


def one_path(E, ctx, prog, desc_base, raising=False):
    fails = []
    variants = []
    for prune in (True, False):
        st = prog.cfg(prune)
        if st[0] == "refused":
            return fails, "refused"
        if st[0] == "error":
            fails.append({"kind": "frontend-error", "signature": f"frontend:prune={prune}:{exc_signature(st[1])}", "detail": repr(st[1])[:200]})
            return fails, "error"
        variants.append((prune, st[1]))
    # other input forms (source string, function object) and repeated conversion in the same process
    for label, st in prog.cfg_forms():
        if st[0] == "ok":
            variants.append((label, st[1]))
        elif st[0] == "error":
            fails.append({"kind": "frontend-error", "signature": f"frontend:form={label.split('#')[0]}:{exc_signature(st[1])}",
                          "detail": f"conversion {label} of the same function: {st[1]!r}"[:200]})
            return fails, "error"
        else:
            fails.append({"kind": "frontend-error", "signature": f"frontend:form={label.split('#')[0]}:refused-unlike-ast-list-form",
                          "detail": f"conversion {label} refused a function the AST-list form accepts"})
            return fails, "error"
    if E is not None:
        args, argvars = s2.sym_args(E)
        env1 = s2.Env(E, raising=raising)
    else:
        args = s2.concrete_args(desc_base["args"])
        argvars = []
        raising = any(k.startswith("raise:") for k in desc_base["ext"])
        env1 = s2.Env(None, concrete=desc_base["ext"], raising=raising)
    o1 = prog.run(prog.orig_fn, args, env1)
    if o1[0] == "unwind":
        return fails, "unwind"
    for prune, bp in variants:
        env2 = s2.Env(E, raising=raising) if E is not None else s2.Env(None, concrete=desc_base["ext"], raising=raising)
        o2 = prog.run_blocks(bp, args, env2)
        mism = s2.compare_runs(E, o1, env1.log, o2, env2.log, ctx)
        for kind, detail in mism:
            if kind == "inconclusive":
                if ctx is not None:
                    ctx.extra["inconclusive"] += 1
                continue
            inp = s2.model_inputs(E, argvars, [env1, env2]) if E is not None else None
            cs = s2.causes(prog.src)
            if not (o2 == ("ret", None) or o2 == ("exc", "TypeError") or o1 == ("exc", "UnboundLocalError")):
                cs = [c for c in cs if not c.startswith("D12")]
            sig = "meaning:" + ("+".join(cs) if cs else kind)
            fails.append({"kind": "meaning", "signature": sig, "detail": f"prune={prune} {kind}: {detail}"[:300], "inputs": inp})
            return fails, "compared"
    return fails, "compared"


def harness_for(gen_factory, raising=False):
    def harness(E, ctx, aux):
        ch = s2.Chooser(E, getattr(ctx, "cube", ()))
        g = gen_factory(ch)
        src = g.program()
        prog = s2.Program.get(src)
        ctx.current = {"src": src, "args": None, "ext": {}}
        if prog.orig_error is not None:
            ctx.feature("generator-produced-invalid-python")
            return
        if not hasattr(ctx, "_seen"):
            ctx._seen = set()
        first = src not in ctx._seen
        if first:
            ctx._seen.add(src)
            ctx.feature("programs")
            st = prog.cfg(True)
            ctx.feature("frontend:" + st[0])
            for k in getattr(g, "kinds_used", []):
                ctx.feature("stmt:" + k)
            if getattr(g, "position", None):
                ctx.feature("position:" + g.position)
            if st[0] == "ok":
                ctx.nontrivial += 1
                ctx.sample({"src": src, "cfg": st[2].to_dict()}, cap=1)
                try:
                    errs = census(prog)
                except Exception as e:
                    errs = [("census-exception", exc_signature(e))]
                seen = set()
                for err in errs:
                    sig = "census:" + str(err[0]) + (":" + str(err[1]) if len(err) > 1 and isinstance(err[1], str) and not err[1].isdigit() else "")
                    if sig in seen:
                        continue
                    seen.add(sig)
                    ctx.fail("census", sig, {"src": src, "args": None, "ext": {}}, repr(err)[:300])
        fails, status = one_path(E, ctx, prog, None, raising)
        ctx.evaluations += 1
        ctx.feature("path:" + status)
        for f in fails:
            desc = {"src": src}
            if f.get("inputs"):
                desc.update(f["inputs"])
            else:
                desc.update({"args": None, "ext": {}})
            ctx.fail(f["kind"], f["signature"], desc, f["detail"])
    return harness


def jobs(tier):
    return [Job(name=j.name, space=j.space, harness=harness_for(j.harness.factory, j.harness.raising), bounds=j.bounds, budget_s=j.budget_s,
                required=j.required, cubes_fn=j.cubes_fn, path_timeout_s=j.path_timeout_s) for j in _c07_jobs(tier)
            # local-versus-global scoping of a name bound only in dead code is not something a block-by-block interpreter defines
            if j.name != "S2-names-bound-only-in-dead-code"]


def replay(desc):
    prog = s2.Program(desc["src"])
    fails = []
    if desc.get("args") is None:
        for prune in (True, False):
            st = prog.cfg(prune)
            if st[0] == "error":
                fails.append({"kind": "frontend-error", "signature": f"frontend:prune={prune}:{exc_signature(st[1])}", "detail": repr(st[1])[:200]})
                return fails
        for label, st in prog.cfg_forms():
            if st[0] == "error":
                fails.append({"kind": "frontend-error", "signature": f"frontend:form={label.split('#')[0]}:{exc_signature(st[1])}", "detail": repr(st[1])[:200]})
                return fails
            if st[0] == "refused":
                fails.append({"kind": "frontend-error", "signature": f"frontend:form={label.split('#')[0]}:refused-unlike-ast-list-form", "detail": label})
                return fails
        try:
            errs = census(prog)
        except Exception as e:
            errs = [("census-exception", exc_signature(e))]
        for err in errs:
            sig = "census:" + str(err[0]) + (":" + str(err[1]) if len(err) > 1 and isinstance(err[1], str) and not err[1].isdigit() else "")
            fails.append({"kind": "census", "signature": sig, "detail": repr(err)[:300]})
        return fails
    fails, status = one_path(None, None, prog, desc)
    return fails

"""C04 - the region hierarchy is self-consistent (every stage prefix)."""
from vf.props._s1prop import make, COMMON_FUNCTIONS, COMMON_ASSUMPTIONS
from vf.oracles.hier import check_hier

PROPERTY = "C04"
LEVEL = "model_checking"
RULE = ("one closed CFG per solver-enumerated path, after each stage prefix; every level of the hierarchy is checked for unique names, "
        "header/exiting membership, scope of every target and back edge, single entry/exit discipline, region targets == exiting block targets "
        "down the exiting chain, parent bookkeeping; non-trivial = synthetic block inserted")
FUNCTIONS = COMMON_FUNCTIONS
ASSUMPTIONS = COMMON_ASSUMPTIONS


def _oracle(desc, orig_blocks, g, k, payload):
    return check_hier(g)


check, harness, jobs, replay = make(_oracle, stages=(1, 2, 3))

"""C14 - graph edit primitives reroute exactly the requested arcs."""
import itertools

import z3

from vf.runner import Job
from vf.spaces import s1_space, realise_s1
from vf.s1common import exc_signature
from vf.oracles.hier import build_scfg, STAGES, flatten, regions, resolve, check_tables

PROPERTY = "C14"
LEVEL = "model_checking"
RULE = ("pre-states: (A) every graph of <= 3 plain blocks with <= 2 distinct ordered targets (one external name) and an optional declared "
        "back edge per block, (B) every level of every restructured closed CFG (N <= 4, stage prefix loops / branches) - regions, latches and "
        "branching synthetic blocks as predecessors; per pre-state ALL predecessor sets (size <= 2) x successor lists (size <= 2, both orders) x "
        "primitives are applied to a fresh copy and compared with an arc-level specification; the control-block variant is followed by a second "
        "insertion and checked by complete product search for path preservation; non-trivial = an arc was actually rerouted")
FUNCTIONS = [
    "numba_scfg.core.datastructures.scfg:SCFG.insert_block",
    "numba_scfg.core.datastructures.scfg:SCFG._reroute_block",
    "numba_scfg.core.datastructures.scfg:SCFG.insert_SyntheticExit",
    "numba_scfg.core.datastructures.scfg:SCFG.insert_SyntheticTail",
    "numba_scfg.core.datastructures.scfg:SCFG.insert_SyntheticReturn",
    "numba_scfg.core.datastructures.scfg:SCFG.insert_SyntheticFill",
    "numba_scfg.core.datastructures.scfg:SCFG.insert_block_and_control_blocks",
    "numba_scfg.core.datastructures.scfg:SCFG.join_returns",
    "numba_scfg.core.datastructures.scfg:SCFG.join_tails_and_exits",
    "numba_scfg.core.datastructures.basic_block:SyntheticBranch.replace_jump_targets",
]
ASSUMPTIONS = [
    "pre-state blocks have pairwise distinct successors (what the front ends produce and restructuring maintains)",
    "predecessors exist in the graph being edited; the new name is fresh; successors that are back-edge targets of a predecessor are outside the claim",
    "insert_block_and_control_blocks: every successor is targeted by at least one predecessor (the callers pass headers and their entries)",
    "join_tails_and_exits: >= 1 tail, >= 1 exit; every tail has an arc to some exit",
    "histories: each operation is checked from an arbitrary explored pre-state, including pre-states produced by a previous insertion (inductive step), sequences of length 2",
]

INSERTERS = {
    "exit": ("insert_SyntheticExit", "SyntheticExit"),
    "tail": ("insert_SyntheticTail", "SyntheticTail"),
    "return": ("insert_SyntheticReturn", "SyntheticReturn"),
    "fill": ("insert_SyntheticFill", "SyntheticFill"),
}


# ---------------------------------------------------------------------------
# pre-states


def build_pre(desc):
    """returns (top scfg, the graph level that is edited)"""
    from numba_scfg.core.datastructures.scfg import SCFG
    from numba_scfg.core.datastructures.basic_block import BasicBlock

    if desc["space"] == "A":
        blocks = {}
        for n, t, be in zip(desc["names"], desc["targets"], desc["backedge"]):
            blocks[n] = BasicBlock(n, tuple(t), (t[be],) if be >= 0 else ())
        g = SCFG(blocks)
        return g, g
    if desc["space"] == "C":
        g = build_c(desc)
        return g, g
    g = build_scfg(desc)
    for s in STAGES[: desc["stage"]]:
        getattr(g, s)()
    lvl = g
    if desc.get("level"):
        lvl = regions(g)[desc["level"]].subregion
    return g, lvl


def snapshot(top):
    """name -> (type, _jump_targets, backedges, table, assignment, object) for every block and region."""
    out = {}

    def walk(g):
        for n, b in g.graph.items():
            out[n] = (type(b).__name__, b._jump_targets, b.backedges,
                      dict(getattr(b, "branch_value_table", {}) or {}), dict(getattr(b, "variable_assignment", {}) or {}),
                      getattr(b, "variable", None))
            if hasattr(b, "subregion") and b.subregion is not None:
                walk(b.subregion)

    walk(top)
    return out


def exiting_chain_names(top, name):
    regs = regions(top)
    out = [name]
    while out[-1] in regs:
        out.append(regs[out[-1]].exiting)
    return out


def expect_insert(T, B, S, new):
    """spec: non-back-edge elements of T that are in S are replaced by `new`, merged at the first position."""
    out = []
    placed = False
    for t in T:
        if t in S and t not in B:
            if not placed:
                out.append(new)
                placed = True
        else:
            out.append(t)
    return tuple(out)


def leaf_orig(top):
    """the pre-state as a free-choice graph over its leaf blocks (targets resolved to leaves)"""
    flat = flatten(top)
    regs = regions(top)
    return {n: tuple(resolve(t, regs) for t in b._jump_targets) for n, b in flat.items()}


def arc_walk_check(orig, top):
    """Path preservation, arc by arc (the pre-state need not be a closed CFG):
    from the i-th target of every pre-state leaf block, passing only through
    inserted blocks steered solely by the control variables they assign and
    test, the walk must arrive at the pre-state's i-th target."""
    from numba_scfg.core.datastructures.basic_block import SyntheticAssignment, SyntheticBranch

    errs = []
    flat = flatten(top)
    regs = regions(top)
    for n, osucc in orig.items():
        b = flat.get(n)
        if b is None:
            errs.append(("lost", n))
            continue
        if len(b._jump_targets) != len(osucc):
            errs.append(("arity", n, b._jump_targets, osucc))
            continue
        for i, want in enumerate(osucc):
            try:
                pos = resolve(b._jump_targets[i], regs)
            except Exception:
                errs.append(("header-chain", n))
                continue
            ctrl = {}
            for _ in range(200):
                if pos in orig or pos not in flat:
                    if pos != want:
                        errs.append(("wrong-target", n, i, want, pos))
                    break
                c = flat[pos]
                if isinstance(c, SyntheticAssignment):
                    ctrl.update(c.variable_assignment)
                    if len(c._jump_targets) != 1:
                        errs.append(("assign-arity", pos))
                        break
                    pos = resolve(c._jump_targets[0], regs)
                elif isinstance(c, SyntheticBranch):
                    if c.variable not in ctrl:
                        errs.append(("unset", pos, c.variable))
                        break
                    v = ctrl[c.variable]
                    if v not in c.branch_value_table:
                        errs.append(("range", pos, v))
                        break
                    t = c.branch_value_table[v]
                    if t not in c._jump_targets:
                        errs.append(("table-target", pos, t))
                        break
                    pos = resolve(t, regs)
                else:
                    if len(c._jump_targets) != 1:
                        errs.append(("inserted-block-arity", pos, c._jump_targets))
                        break
                    pos = resolve(c._jump_targets[0], regs)
            else:
                errs.append(("spin", n, i))
    return errs


# ---------------------------------------------------------------------------


# space C: a branching synthetic block as the predecessor, built directly (one inductive step from a state that the
# pipeline only reaches on large graphs: several arcs of one value-table block re-targeted in one call, names whose
# sorted order differs from their position, name-generator indices crossing from one to two digits)

C_NAME_POOL = ["b1", "m_block_2", "z1", "loop_region_0"]
C_TYPES = ["SyntheticHead", "SyntheticExitBranch", "SyntheticBranch", "SyntheticExitingLatch"]  # the latch also holds a declared back edge
C_FEEDERS = [
    ["asg{v}", "asg{v}", "asg{v}"],
    ["synth_asign_block_9", "synth_asign_block_10", "synth_asign_block_11"],
    ["synth_asign_block_2", "synth_asign_block_10", "synth_asign_block_9"],
]


def build_c(desc):
    from numba_scfg.core.datastructures.scfg import SCFG, NameGenerator
    from numba_scfg.core.datastructures import basic_block as bb

    T = list(desc["targets"])
    table = {int(v): T[i] for v, i in desc["table"].items()}
    var = "__scfg_control_var_0__"
    blocks = {}
    vals = sorted(table)
    # names of the assignment blocks that feed X: plain, or generated-looking with indices of different digit counts
    feeders = C_FEEDERS[desc.get("feeders", 0)]
    asg = {v: feeders[j].format(v=v) for j, v in enumerate(vals)}
    # entry chain e0 -> (a0, e1), e1 -> (a1, a2) ...: one assignment block per value
    for j, v in enumerate(vals):
        last = j == len(vals) - 1
        if not last:
            nxt = asg[vals[j + 1]] if j == len(vals) - 2 else f"e{j + 1}"
            blocks[f"e{j}"] = bb.BasicBlock(f"e{j}", (asg[v], nxt))
        blocks[asg[v]] = bb.SyntheticAssignment(asg[v], ("X",), (), {var: v})
    if desc["type"] == "SyntheticExitingLatch":
        # one more target: the loop header `hd`, a declared back edge selected by one more value
        table[max(table) + 1] = "hd"
        blocks["hd"] = bb.BasicBlock("hd", ("e0",) if "e0" in blocks else (asg[vals[0]],))
        blocks["X"] = bb.SyntheticExitingLatch("X", tuple(T) + ("hd",), ("hd",), var, dict(table))
    else:
        blocks["X"] = getattr(bb, desc["type"])("X", tuple(T), (), var, dict(table))
    for t in T:
        blocks[t] = bb.BasicBlock(t, ())
    c = desc.get("counter_start") or 0
    kinds = {k: c for k in ("synth_asign", "synth_head", "synth_tail", "synth_exit", "synth_fill", "synth_return", "control")} if c else {}
    return SCFG(blocks, name_gen=NameGenerator(kinds=kinds))


def space_c(k):
    """k targets; their names: an ordered selection from the pool; table: a surjection values -> positions."""
    m_max = 3
    NM = [z3.Int(f"nm{i}") for i in range(k)]
    TB = [z3.Int(f"tb{v}") for v in range(m_max)]  # position of value v, -1 = value unused
    ty, c, fd = z3.Int("type"), z3.Int("counter"), z3.Int("feeders")
    # generated-looking feeder names only with a fresh generator (the constructor reserves them)
    cs = [ty >= 0, ty < len(C_TYPES), z3.Or(c == 0, c == 8, c == 9), z3.Distinct(*NM), fd >= 0, fd < len(C_FEEDERS), z3.Implies(fd > 0, c == 0)]
    for x in NM:
        cs += [x >= 0, x < len(C_NAME_POOL)]
    for v in range(m_max):
        cs += [TB[v] >= (-1 if v >= k else 0), TB[v] < k]
        if v:
            cs.append(z3.Implies(TB[v - 1] == -1, TB[v] == -1))
    for pos in range(k):
        cs.append(z3.Or([TB[v] == pos for v in range(m_max)]))
    return z3.And(cs), [ty, c, NM[0], NM[1]], {"k": k, "NM": NM, "TB": TB, "ty": ty, "c": c, "fd": fd}


def realise_c(E, aux):
    k = aux["k"]
    T = [C_NAME_POOL[E.realize(x)] for x in aux["NM"]]
    tb = {}
    for v, x in enumerate(aux["TB"]):
        p = E.realize(x)
        if p >= 0:
            tb[str(v)] = p
    return {"space": "C", "targets": T, "table": tb, "type": C_TYPES[E.realize(aux["ty"])], "counter_start": E.realize(aux["c"]),
            "feeders": E.realize(aux["fd"])}


def c_ops(desc):
    """every operation with the branching block as the predecessor and an ordered selection of its targets as S"""
    T = desc["targets"]
    Ss = [list(p) for r in range(1, len(T) + 1) for p in itertools.permutations(T, r)]
    ops = []
    for prim in ("control", "tail", "exit", "fill", "return"):
        for S in Ss:
            ops.append({"prim": prim, "P": ["X"], "S": S})
            if prim in ("control", "tail") and len(S) < len(T):
                ops.append({"prim": prim, "P": ["X", "e0"] if len(desc["table"]) > 1 else ["X"], "S": S})
    for S in Ss:
        if len(S) <= 2:
            ops.append({"prim": "join_tails_and_exits", "P": ["X"], "S": S})
    return ops


def harness_c(E, ctx, aux):
    desc = realise_c(E, aux)
    ctx.current = desc
    ctx.sample(desc)
    ctx.feature("pre-state-has:" + desc["type"])
    n = 0
    for op in c_ops(desc):
        fails, rer = check(desc, [op])
        n += 1
        if rer:
            ctx.nontrivial += 1
            ctx.feature("rerouted:" + op["prim"])
        for f in fails:
            ctx.fail(f["kind"], f["signature"], {"pre": desc, "ops": [op]}, f["detail"])
        if op["prim"] == "control" and rer and not fails:
            # a second insertion re-targets the fresh head / the first assignment block
            for op2 in ({"prim": "tail", "P": ["new_0"], "S": list(op["S"])}, {"prim": "control", "P": ["new_0"], "S": list(op["S"])}):
                fails2, rer2 = check(desc, [op, op2])
                n += 1
                if rer2:
                    ctx.feature("seq:" + op2["prim"])
                for f in fails2:
                    ctx.fail(f["kind"], f["signature"], {"pre": desc, "ops": [op, op2]}, f["detail"])
    ctx.evaluations += n


def walk_map(top):
    """(plain block, successor index) -> the plain block reached next, passing only through synthetic blocks steered by
    the control variables they assign and test; ('error', kind, where) when the walk breaks"""
    from numba_scfg.core.datastructures.basic_block import SyntheticAssignment, SyntheticBranch, SyntheticBlock

    flat = flatten(top)
    regs = regions(top)
    out = {}
    for n, b in flat.items():
        if isinstance(b, SyntheticBlock):
            continue
        for i, t in enumerate(b._jump_targets):
            ctrl = {}
            try:
                pos = resolve(t, regs)
            except Exception:
                out[(n, i)] = ("error", "header-chain", t)
                continue
            res = ("error", "spin", n)
            for _ in range(200):
                c = flat.get(pos)
                if c is None or not isinstance(c, SyntheticBlock):
                    res = pos
                    break
                if isinstance(c, SyntheticAssignment):
                    ctrl.update(c.variable_assignment)
                if isinstance(c, SyntheticBranch):
                    if c.variable not in ctrl:
                        res = ("error", "unset", pos)
                        break
                    if ctrl[c.variable] not in c.branch_value_table:
                        res = ("error", "range", pos)
                        break
                    nxt = c.branch_value_table[ctrl[c.variable]]
                    if nxt not in c._jump_targets:
                        res = ("error", "table-target", pos)
                        break
                elif len(c._jump_targets) == 1:
                    nxt = c._jump_targets[0]
                else:
                    res = ("error", "stuck", pos)
                    break
                try:
                    pos = resolve(nxt, regs)
                except Exception:
                    res = ("error", "header-chain", nxt)
                    break
            out[(n, i)] = res
    return out


def edit_step(desc, ops, want):
    """For C01 / C06: apply the operation sequence to the pre-state and report only what those properties state:
    want = "paths": the arcs between original blocks are preserved by control-block insertions (C01);
    want = "tables": value tables name exactly the block's successors and every control variable is set and in range
    when its branching block is reached (C06)."""
    top, lvl = build_pre(desc)
    orig = leaf_orig(top)
    wm0 = walk_map(top)
    fails = []
    for k, op in enumerate(ops):
        pre = snapshot(top)
        if any(p not in lvl.graph for p in op["P"]) or not in_domain(pre, list(lvl.graph), op):
            return fails
        try:
            apply_op(lvl, op, k)
        except Exception as e:
            fails.append({"kind": "edit-step", "signature": f"edit-step:{op['prim']}:{exc_signature(e)}", "detail": repr(e)[:200]})
            return fails
    if want == "tables":
        for e in check_tables(top):
            fails.append({"kind": "edit-step", "signature": "edit-step:" + str(e[0]), "detail": repr(e)[:300]})
    if all(op["prim"] == "control" for op in ops):
        # plain block to plain block, THROUGH the value tables of the pre-state's own branching blocks
        wm1 = walk_map(top)
        for key, before in wm0.items():
            after = wm1.get(key, ("error", "lost", key[0]))
            if before == after or (isinstance(before, tuple) and before[0] == "error"):
                continue
            ctrl = isinstance(after, tuple) and after[1] in ("unset", "range", "table-target")
            if (want == "tables" and ctrl) or (want == "paths" and not ctrl):
                kind = after[1] if isinstance(after, tuple) else "wrong-target"
                fails.append({"kind": "edit-step", "signature": "edit-step:" + ("control-variable:" if ctrl else "paths:") + kind,
                              "detail": f"{key[0]} taking successor {key[1]} reached {before} before the insertion and {after} after it"[:300]})
        for e in arc_walk_check(orig, top):
            ctrl = e[0] in ("unset", "range", "table-target")
            if (want == "tables" and ctrl) or (want == "paths" and not ctrl):
                fails.append({"kind": "edit-step", "signature": "edit-step:" + ("control-variable:" if ctrl else "paths:") + str(e[0]), "detail": repr(e)[:300]})
    out, seen = [], set()
    for f in fails:
        if f["signature"] not in seen:
            seen.add(f["signature"])
            out.append(f)
    return out


def edit_step_jobs(want):
    """jobs over space C for the properties that rest on the same edit primitives"""
    def harness(E, ctx, aux):
        desc = realise_c(E, aux)
        ctx.current = {"kind": "edit-step", "pre": desc, "ops": []}
        n = 0
        for op in c_ops(desc):
            if want == "paths" and op["prim"] != "control":
                continue
            seqs = [[op]]
            if op["prim"] == "control":
                seqs.append([op, {"prim": "control", "P": ["new_0"], "S": list(op["S"])}])
            for ops in seqs:
                fs = edit_step(desc, ops, want)
                n += 1
                for f in fs:
                    ctx.fail(f["kind"], f["signature"], {"kind": "edit-step", "pre": desc, "ops": ops}, f["detail"])
        ctx.evaluations += n
        ctx.nontrivial += 1
        ctx.feature("edit-step-pre-states")
        ctx.sample({"kind": "edit-step", "pre": desc}, cap=1)

    return [Job(f"edit-step-branching-synthetic-predecessor-{k}-targets", (lambda k=k: space_c(k)), harness,
                bounds={"space": "C (one edit step from a directly built mid-pipeline state)", "targets": k, "target_names": "ordered selections from " + repr(C_NAME_POOL),
                        "value_table": "every surjection of <= 3 values onto the targets", "block_types": C_TYPES, "name_generator_counters_start_at": [0, 8, 9],
                        "operations": "insert_block_and_control_blocks (and, for tables, every insert_* / join primitive) with every ordered selection of the targets as successors; control insertion twice in a row"},
                budget_s=600) for k in (2, 3)]


def apply_op(lvl, op, k):
    new = f"new_{k}"
    prim = op["prim"]
    if prim in INSERTERS:
        getattr(lvl, INSERTERS[prim][0])(new, list(op["P"]), list(op["S"]))
        return new
    if prim == "control":
        lvl.insert_block_and_control_blocks(new, list(op["P"]), list(op["S"]))
        return new
    if prim == "join_returns":
        lvl.join_returns()
        return None
    if prim == "join_tails_and_exits":
        return lvl.join_tails_and_exits(list(op["P"]), list(op["S"]))
    raise ValueError(prim)


def check_one(top, lvl, op, k, fails, tag):
    """apply op to lvl (mutating) and compare with the arc-level spec."""
    from numba_scfg.core.datastructures import basic_block as bb

    def fail(sig, detail=""):
        fails.append({"kind": "edit", "signature": f"{tag}{op['prim']}:{sig}", "detail": str(detail)[:300]})

    pre = snapshot(top)
    pre_keys = list(lvl.graph)
    pre_objs = dict(lvl.graph)
    P, S = list(op["P"]), list(op["S"])
    chains = {p: exiting_chain_names(top, p) for p in P}
    affected = {c for p in P for c in chains[p]}
    try:
        ret = apply_op(lvl, op, k)
    except Exception as e:
        fail(exc_signature(e), repr(e))
        return False
    post = snapshot(top)
    prim = op["prim"]
    rerouted = 0
    if prim in INSERTERS or prim == "control":
        new = ret
        if new not in lvl.graph:
            fail("new-block-missing")
            return False
        nb = lvl.graph[new]
        if nb._jump_targets != tuple(S):
            fail("new-block-targets", (nb._jump_targets, S))
        if nb.backedges:
            fail("new-block-has-backedge")
    if prim in INSERTERS:
        if type(nb).__name__ != INSERTERS[prim][1]:
            fail("new-block-type", type(nb).__name__)
        for n in pre:
            if n not in post:
                fail("block-vanished", n)
                continue
            t0, T, B, tab, asg, var = pre[n]
            t1, T2, B2, tab2, asg2, var2 = post[n]
            if n in affected:
                exp = expect_insert(T, B, S, new) if S else T + (new,)
                if exp != T:
                    rerouted += 1
                # when several arcs merge into the new block, its position among the remaining successors is not
                # prescribed by the property; their own order is, and so is a single occurrence of the new block
                rest = tuple(t for t in exp if t != new)
                if tuple(t for t in T2 if t != new) != rest or T2.count(new) != exp.count(new) or (len(exp) == len(T) and T2 != exp):
                    fail("predecessor-targets:" + t0, (n, T, S, T2, exp))
                if B2 != B:
                    fail("predecessor-backedges:" + t0, (n, B, B2))
                if tab:
                    # table must follow the renaming
                    m = {t: (new if (t in S and t not in B) else t) for t in T}
                    if tab2 != {k2: m.get(v, v) for k2, v in tab.items()}:
                        fail("predecessor-table:" + t0, (n, tab, tab2))
                if (t0, asg, var) != (t1, asg2, var2):
                    fail("predecessor-altered:" + t0, n)
            else:
                if pre[n] != post[n]:
                    fail("other-block-changed:" + t0, (n, pre[n][:3], post[n][:3]))
        for n in post:
            if n not in pre and n != new:
                fail("extra-block", n)
        for n, b in pre_objs.items():
            if n not in P and lvl.graph.get(n) is not b and lvl.graph.get(n) != b:
                fail("other-block-replaced", n)
    elif prim == "control":
        if type(nb).__name__ != "SyntheticHead":
            fail("new-block-type", type(nb).__name__)
        added = [n for n in post if n not in pre and n != new]
        used_assign = set()
        for n in pre:
            if n not in post:
                fail("block-vanished", n)
                continue
            t0, T, B, tab, asg, var = pre[n]
            t1, T2, B2, tab2, asg2, var2 = post[n]
            if n in affected:
                if len(T2) != len(T) or B2 != B:
                    fail("predecessor-arity-or-backedges:" + t0, (n, T, B, T2, B2))
                    continue
                for i, (a, b2) in enumerate(zip(T, T2)):
                    if a in S and a not in B:
                        rerouted += 1
                        blk = post.get(b2)
                        if b2 not in added or blk is None or blk[0] != "SyntheticAssignment":
                            fail("arc-not-through-assignment:" + t0, (n, a, b2))
                            continue
                        if n in P:
                            if b2 in used_assign:
                                fail("assignment-shared", b2)
                            used_assign.add(b2)
                        if blk[1] != (new,):
                            fail("assignment-target", (b2, blk[1]))
                        val = blk[4].get(nb.variable)
                        if val is None or nb.branch_value_table.get(val) != a:
                            fail("assignment-value-vs-table", (b2, blk[4], nb.branch_value_table, a))
                        if tab and tab2.get(next((k2 for k2, v in tab.items() if v == a), None)) != b2:
                            fail("predecessor-table:" + t0, (n, tab, tab2))
                    elif a != b2:
                        fail("other-arc-changed:" + t0, (n, T, T2))
            else:
                if pre[n] != post[n]:
                    fail("other-block-changed:" + t0, (n,))
        for n in added:
            if post[n][0] != "SyntheticAssignment":
                fail("extra-block", (n, post[n][0]))
            elif n not in used_assign:
                fail("unused-assignment", n)
        for e in check_tables(top):
            if e[2] == new:
                fail("head-" + e[0], e)
    elif prim == "join_returns":
        exits = [n for n in pre_keys if not [t for t in pre[n][1] if t not in pre[n][2]]]
        if len(exits) <= 1:
            if sorted(lvl.graph) != sorted(pre_keys) or any(lvl.graph[n] != pre_objs[n] for n in pre_keys) or pre != post:
                fail("not-a-no-op", exits)
        else:
            rerouted += 1
            added = [n for n in post if n not in pre]
            if len(added) != 1 or post[added[0]][0] != "SyntheticReturn" or post[added[0]][1] != ():
                fail("return-block", added)
            else:
                r = added[0]
                for n in pre:
                    if n in exits:
                        if post[n][1] != pre[n][1] + (r,) or post[n][2] != pre[n][2]:
                            fail("exit-not-joined:" + pre[n][0], (n, post[n][1]))
                    elif pre[n] != post[n]:
                        fail("other-block-changed:" + pre[n][0], n)
                now = [n for n in lvl.graph if not [t for t in lvl.graph[n]._jump_targets if t not in lvl.graph[n].backedges]]
                if now != [r]:
                    fail("not-exactly-one-exit", now)
    elif prim == "join_tails_and_exits":
        try:
            st, se = ret
        except Exception:
            fail("return-value", ret)
            return False
        if st not in lvl.graph:
            fail("solo-tail-missing", st)
            return False
        scope_ok = se in lvl.graph or se in S
        if not scope_ok:
            fail("solo-exit-missing", se)
            return False
        for t in P:
            for e in S:
                if e in pre[t][1] and e not in pre[t][2]:
                    rerouted += 1
                    chain = [t] + ([st] if st != t else []) + ([se] if se not in (e, st) else []) + [e]
                    if se == st:
                        fail("tail-equals-exit", (st, se))
                    for a, b in zip(chain, chain[1:]):
                        if a not in post or b not in post[a][1]:
                            fail("arc-does-not-pass-through", (t, e, chain, a, b))
                            break
                    if len(chain) > 2 and e in post[t][1]:
                        fail("direct-arc-kept", (t, e))
        for n in pre:
            if n not in post:
                fail("block-vanished", n)
            elif n not in affected and pre[n] != post[n]:
                fail("other-block-changed:" + pre[n][0], n)
            elif n in affected:
                keep0 = [x for x in pre[n][1] if x not in S or x in pre[n][2]]
                keep1 = [x for x in post[n][1] if x in keep0]
                if keep0 != keep1 or pre[n][2] != post[n][2]:
                    fail("tail-other-arcs-changed:" + pre[n][0], (n, pre[n][1], post[n][1]))
        for n in post:
            if n not in pre and n not in (st, se):
                fail("extra-block", n)
            if n not in pre and post[n][0] not in ("SyntheticTail", "SyntheticExit"):
                fail("new-block-type", (n, post[n][0]))
    return rerouted > 0


def in_domain(pre, lvl_keys, op):
    P, S = op["P"], op["S"]
    prim = op["prim"]
    for p in P:
        if set(S) & set(pre[p][2]):
            return False  # a successor is a back-edge target of a predecessor
    if prim == "control":
        if not S:
            return False
        for s in S:
            if not any(s in pre[p][1] and s not in pre[p][2] for p in P):
                return False
    if prim == "join_tails_and_exits":
        if not P or not S or set(P) & set(S):
            return False
        for t in P:
            if not any(e in pre[t][1] for e in S):
                return False
        if len(P) == 1 and len(S) > 2:
            return False  # no caller: 'unreachable' branch of the implementation
    return True


def check(desc, ops):
    """apply the op sequence to a fresh pre-state, checking every step."""
    fails = []
    top, lvl = build_pre(desc)
    orig = leaf_orig(top)
    all_control = True
    any_rerouted = False
    for k, op in enumerate(ops):
        pre = snapshot(top)
        for p in op["P"]:
            if p not in lvl.graph:
                return fails, any_rerouted
        if not in_domain(pre, list(lvl.graph), op):
            return fails, any_rerouted
        ok = check_one(top, lvl, op, k, fails, tag=("" if k == 0 else "seq:"))
        any_rerouted = any_rerouted or ok
        if fails:
            return fails, any_rerouted
        if op["prim"] != "control":
            all_control = False
        if all_control:
            for e in arc_walk_check(orig, top):
                fails.append({"kind": "paths", "signature": ("" if k == 0 else "seq:") + "control:paths:" + str(e[0]), "detail": repr(e)[:300]})
                return fails, any_rerouted
    return fails, any_rerouted


def subsets(keys, maxsize, ordered=False):
    out = [()]
    for r in range(1, maxsize + 1):
        out += list(itertools.permutations(keys, r) if ordered else itertools.combinations(keys, r))
    return out


def explore_ops(ctx, desc, keys, ext, second=True):
    """all single ops over the level, plus control->(control|tail) sequences"""
    Ps = [p for p in subsets(keys, 2) if p]
    Ss = subsets(list(keys) + ext, 2, ordered=True)
    prims = ["tail", "exit", "fill", "return", "control", "join_tails_and_exits"]
    n_ops = 0
    for prim in prims:
        for P in Ps:
            for S in Ss:
                op = {"prim": prim, "P": list(P), "S": list(S)}
                fails, rer = check(desc, [op])
                n_ops += 1
                if rer:
                    ctx.nontrivial += 1
                    ctx.feature("rerouted:" + prim)
                for f in fails:
                    ctx.fail(f["kind"], f["signature"], {"pre": desc, "ops": [op]}, f["detail"])
                if second and prim == "control" and rer and not fails:
                    # follow-up insertion whose predecessors include the new head / an assignment
                    for prim2 in ("control", "tail"):
                        for P2 in (["new_0"], ["new_0", P[0]]):
                            for S2 in Ss:
                                if not S2:
                                    continue
                                op2 = {"prim": prim2, "P": list(P2), "S": list(S2)}
                                fails2, rer2 = check(desc, [op, op2])
                                n_ops += 1
                                if rer2:
                                    ctx.feature("seq:" + prim2)
                                for f in fails2:
                                    ctx.fail(f["kind"], f["signature"], {"pre": desc, "ops": [op, op2]}, f["detail"])
    fails, rer = check(desc, [{"prim": "join_returns", "P": [], "S": []}])
    if rer:
        ctx.nontrivial += 1
        ctx.feature("rerouted:join_returns")
    for f in fails:
        ctx.fail(f["kind"], f["signature"], {"pre": desc, "ops": [{"prim": "join_returns", "P": [], "S": []}]}, f["detail"])
    ctx.evaluations += n_ops + 1


# ---------------------------------------------------------------------------
# spaces


def space_a(N, K=2, max_edges=None):
    T = [[z3.Int(f"t{i}_{k}") for k in range(K)] for i in range(N)]
    BE = [z3.Int(f"be{i}") for i in range(N)]
    cs = []
    for i in range(N):
        for k in range(K):
            cs += [T[i][k] >= -1, T[i][k] <= N]
            if k:
                cs.append(z3.Implies(T[i][k - 1] == -1, T[i][k] == -1))
                cs.append(z3.Implies(T[i][k] != -1, T[i][k] != T[i][k - 1]))
        cs += [BE[i] >= -1, BE[i] < K]
        for k in range(K):
            # a back edge marks an existing slot that targets a block of the graph
            cs.append(z3.Implies(BE[i] == k, z3.And(T[i][k] != -1, T[i][k] != N)))
    if max_edges is not None:
        cs.append(z3.Sum([z3.If(T[i][k] != -1, 1, 0) for i in range(N) for k in range(K)]) <= max_edges)
    cubes = [T[0][0], T[0][1], BE[0]] + ([T[1][0], T[1][1]] if N >= 3 else [])
    return z3.And(cs), cubes, {"N": N, "K": K, "T": T, "BE": BE, "second": N <= 2}


def harness_a(E, ctx, aux):
    N, K = aux["N"], aux["K"]
    names = [f"n{i}" for i in range(N)] + ["ext"]
    tg, be = [], []
    for i in range(N):
        row = [E.realize(aux["T"][i][k]) for k in range(K)]
        tg.append([names[t] for t in row if t != -1])
        be.append(E.realize(aux["BE"][i]))
    desc = {"space": "A", "names": names[:N], "targets": tg, "backedge": be}
    ctx.current = desc
    ctx.sample(desc)
    if any(b >= 0 for b in be):
        ctx.feature("pre-state-with-latch")
    explore_ops(ctx, desc, names[:N], ["ext"], second=aux["second"])


def space_b(N, entry=None):
    f, cubes, aux = s1_space(N, entry=entry)
    st = z3.Int("stage")
    aux["stage"] = st
    return z3.And(f, st >= 2, st <= 3), [st, aux["e"]] + aux["A"][:3] + aux["B"][:2], aux


def harness_b(E, ctx, aux):
    d = realise_s1(E, aux)
    k = E.realize(aux["stage"])
    base = {"space": "B", "names": d["names"], "succ": d["succ"], "stage": k, "level": None}
    ctx.current = base
    try:
        top, _ = build_pre(base)
    except Exception:
        ctx.feature("pre-state-raised")
        return
    levels = [None] + list(regions(top))
    for lv in levels:
        desc = dict(base)
        desc["level"] = lv
        g = top if lv is None else regions(top)[lv].subregion
        keys = list(g.graph)
        if len(keys) > 6:
            ctx.feature("level-skipped-too-large")
            continue
        if lv is not None:
            ctx.feature("level:" + regions(top)[lv].kind)
        for n, b in g.graph.items():
            ctx.feature("pre-state-has:" + type(b).__name__)
        # names of the enclosing levels count as external successors
        ext = sorted({t for b in g.graph.values() for t in b._jump_targets if t not in g.graph})[:1]
        ctx.sample(desc)
        explore_ops(ctx, desc, keys, ext, second=False)


def jobs(tier):
    js = [
        Job("A-N2-plain+latch", lambda: space_a(2), harness_a, bounds={"space": "A", "blocks": 2, "slots": 2, "P<=": 2, "S<=": 2, "sequences": "control insertion followed by a second insertion"}, budget_s=600),
        Job("A-N3-plain+latch" + ("-le4-edges" if tier == "quick" else ""), lambda: space_a(3, max_edges=4 if tier == "quick" else None), harness_a,
            bounds={"space": "A", "blocks": 3, "slots": 2, "P<=": 2, "S<=": 2, "max_edges": 4 if tier == "quick" else None, "sequences": "single operations"}, budget_s=1800),
        Job("B-N3-restructured-levels", lambda: space_b(3), harness_b, bounds={"space": "B (S5)", "blocks": 3, "stages": [2, 3], "level_size<=": 6}, budget_s=900),
    ]
    for k in (2, 3):
        js.append(Job(f"C-branching-synthetic-predecessor-{k}-targets", (lambda k=k: space_c(k)), harness_c,
                      bounds={"space": "C", "targets": k, "target_names": "ordered selections from " + repr(C_NAME_POOL), "value_table": "every surjection of <= 3 values onto the targets",
                              "block_types": C_TYPES, "name_generator_counters_start_at": [0, 8, 9], "S": "every ordered selection of the targets",
                              "sequences": "control insertion followed by a second insertion behind the new head"}, budget_s=900))
    if tier == "thorough":
        js.append(Job("B-N4-restructured-levels", lambda: space_b(4), harness_b, bounds={"space": "B (S5)", "blocks": 4, "stages": [2, 3], "level_size<=": 6}, budget_s=3000, required=False))
    return js


def replay(inp):
    fails, _ = check(inp["pre"], inp["ops"])
    return fails

"""C10 - code generation emits every block exactly once, validly and hygienically."""
import ast
import re
from collections import Counter

from vf.runner import Job
from vf.s1common import exc_signature, s1_jobs
from vf import s2
from vf.oracles.hier import build_scfg, flatten
from vf.props.C07 import jobs as _c07_jobs

PROPERTY = "C10"
LEVEL = "translation_validation"
RULE = ("programs: (a) every function of the bounded grammar S2 accepted by the source pipeline, (b) independently every closed CFG of the S1 space "
        "(N <= 4 all labellings, N = 5 entry b0 in thorough) with AST payloads, restructured; per program a STATIC census of the returned "
        "ast.FunctionDef: each statement object of each original block exactly once (return -> assignment of the reserved variable), the multiset "
        "of (variable, value) assignments equals that of all SyntheticAssignment blocks, each branching block's test exactly once as an if-condition, "
        "unparse + compile succeed, new names match __scfg_\\w+__; non-trivial = a function was produced (not refused) and censused")
FUNCTIONS = [
    "numba_scfg.core.datastructures.ast_transforms:SCFG2AST",
    "numba_scfg.core.datastructures.ast_transforms:SCFG2ASTTransformer.transform",
    "numba_scfg.core.datastructures.ast_transforms:SCFG2ASTTransformer.codegen",
    "numba_scfg.core.datastructures.ast_transforms:SCFG2ASTTransformer.lookup",
    "numba_scfg.core.datastructures.ast_transforms:SCFG2ASTTransformer.rlookup",
    "numba_scfg.core.datastructures.scfg:ConcealedRegionView.region_view_iterator",
    "numba_scfg.core.datastructures.scfg:SCFG.restructure",
]
ASSUMPTIONS = [
    "a NotImplementedError from SCFG2AST is an allowed refusal (C07) and is counted, not censused",
    "census is static (node identity over the output tree): it covers code no input reaches",
    "S1 graphs carry one marker statement per block, a Name test in two-successor blocks and a return in exit blocks",
]

RESERVED = re.compile(r"^__scfg_\w+__$")
_SHARED = None  # one SCFG2ASTTransformer per process, reused for every program


def census(scfg, out, original_names):
    from numba_scfg.core.datastructures.basic_block import (
        PythonASTBlock, SyntheticAssignment, SyntheticBranch, SyntheticExitingLatch,
    )

    errs = []
    flat = flatten(scfg)
    ids = Counter(id(n) for n in ast.walk(out))
    if_tests = Counter(id(n.test) for n in ast.walk(out) if isinstance(n, (ast.If, ast.While)))
    # structural fall-back (a refactor may copy statements instead of re-using the node objects)
    out_dumps = Counter(ast.dump(n) for n in ast.walk(out) if isinstance(n, ast.stmt))
    out_test_dumps = Counter(ast.dump(n.test) for n in ast.walk(out) if isinstance(n, (ast.If, ast.While)))
    orig_dumps = Counter()
    orig_test_dumps = Counter()
    by_id = []
    for n, b in flat.items():
        if isinstance(b, PythonASTBlock):
            tree = list(b.tree)
            if len(b._jump_targets) - len([t for t in b._jump_targets if t in b.backedges]) == 2 and tree:
                last = tree.pop()
                t = last.value if isinstance(last, ast.Expr) else last
                orig_test_dumps[ast.dump(t)] += 1
                c = if_tests.get(id(t), 0)
                if c != 1:
                    by_id.append(("test-count", c, n, ast.unparse(t)[:40], "test", ast.dump(t)))
            for st in tree:
                if isinstance(st, ast.Return):
                    c = ids.get(id(st), 0)
                    if st.value is not None:
                        c += ids.get(id(st.value), 0) if c == 0 else 0
                    elif c == 0:
                        continue  # 'return' without value: replaced by a fresh constant assignment
                    if c != 1:
                        if st.value is not None:
                            d = ast.dump(st.value)
                            c2 = sum(1 for m in ast.walk(out) if isinstance(m, (ast.Assign, ast.Return)) and m.value is not None and ast.dump(m.value) == d)
                            if c2 >= 1:
                                continue
                        errs.append(("return-count", c, n))
                    continue
                if isinstance(st, ast.expr):
                    st_d = ast.dump(ast.Expr(st))
                else:
                    st_d = ast.dump(st)
                orig_dumps[st_d] += 1
                c = ids.get(id(st), 0)
                if c != 1:
                    by_id.append(("statement-count", c, n, ast.unparse(st)[:40], "stmt", st_d))
    for e in by_id:
        d = e[5]
        if e[4] == "stmt" and out_dumps.get(d, 0) == orig_dumps[d]:
            continue
        if e[4] == "test" and out_test_dumps.get(d, 0) == orig_test_dumps[d]:
            continue
        errs.append(e[:4])
    want = Counter()
    latches = Counter()
    branch_tests = Counter()
    for n, b in flat.items():
        if isinstance(b, SyntheticAssignment):
            for k, v in b.variable_assignment.items():
                want[(k, v)] += 1
        elif isinstance(b, SyntheticExitingLatch):
            latches[b.variable] += 1
        elif isinstance(b, SyntheticBranch):
            branch_tests[b.variable] += max(0, len([t for t in b._jump_targets if t not in b.backedges]) - 1)
    got = Counter()
    got_latch = Counter()
    got_tests = Counter()
    for nd in ast.walk(out):
        if isinstance(nd, ast.Assign) and len(nd.targets) == 1 and isinstance(nd.targets[0], ast.Name):
            tid = nd.targets[0].id
            if isinstance(nd.value, ast.Constant) and "_var_" in tid and RESERVED.match(tid):
                got[(tid, nd.value.value)] += 1
            if isinstance(nd.value, ast.UnaryOp) and isinstance(nd.value.op, ast.Not) and isinstance(nd.value.operand, ast.Name):
                got_latch[nd.value.operand.id] += 1
        if isinstance(nd, ast.If) and isinstance(nd.test, ast.Compare) and isinstance(nd.test.left, ast.Name) \
                and RESERVED.match(nd.test.left.id) and len(nd.test.ops) == 1 and isinstance(nd.test.ops[0], ast.In):
            got_tests[nd.test.left.id] += 1
    if want != got:
        errs.append(("assignment-census", "lost" if (want - got) else "extra", dict(want - got), dict(got - want)))
    if latches != got_latch:
        errs.append(("latch-census", dict(latches), dict(got_latch)))
    if branch_tests != got_tests:
        errs.append(("branch-test-census", dict(branch_tests), dict(got_tests)))
    try:
        text = ast.unparse(ast.fix_missing_locations(out))
        compile(text, "<c10>", "exec")
    except Exception as e:
        errs.append(("does-not-compile", type(e).__name__, str(e)[:60]))
    bad = sorted({nd.id for nd in ast.walk(out)
                  if isinstance(nd, ast.Name) and nd.id not in original_names and not RESERVED.match(nd.id)})
    if bad:
        errs.append(("unhygienic-name", "+".join(bad)))
    return errs


def sig_of(err):
    s = "census:" + str(err[0])
    if err[0] in ("assignment-census", "unhygienic-name"):
        s += ":" + err[1]
    return s


# ---- (a) S2 programs --------------------------------------------------------


def check_program(src):
    prog = s2.Program.get(src)
    pl = prog.pipeline()
    if pl[0] == "refused":
        return [], "refused"
    if pl[0] == "error":
        if pl[1] in ("unparse", "compile", "SCFG2AST"):
            return [{"kind": "codegen", "signature": f"codegen:{pl[1]}:{exc_signature(pl[2])}", "detail": repr(pl[2])[:200]}], "error"
        return [], "front-end-error"  # C07 / C02 territory
    _, fn, out, scfg, text = pl
    names = {n.id for n in ast.walk(ast.parse(src)) if isinstance(n, ast.Name)} | {a.arg for a in ast.walk(ast.parse(src)) if isinstance(a, ast.arg)}
    errs = census(scfg, out, names)
    fails = []
    seen = set()
    for e in errs:
        sg = sig_of(e)
        if sg not in seen:
            seen.add(sg)
            fails.append({"kind": "census", "signature": sg, "detail": repr(e)[:300]})
    # history: generating a second time from the same graph must give the same program
    try:
        from numba_scfg.core.datastructures.ast_transforms import SCFG2AST

        out2 = SCFG2AST(src, scfg)
        if ast.unparse(out2) != text:
            fails.append({"kind": "census", "signature": "second-generation-differs", "detail": ast.unparse(out2)[:200]})
        for e in census(scfg, out2, names):
            if sig_of(e) in seen:
                continue  # already reported for the first generation
            sg = "second-generation:" + sig_of(e)
            if sg not in seen:
                seen.add(sg)
                fails.append({"kind": "census", "signature": sg, "detail": repr(e)[:300]})
    except Exception as e:
        fails.append({"kind": "codegen", "signature": "second-generation:" + exc_signature(e), "detail": repr(e)[:200]})
    # history: ONE transformer object of the public class used for program after program (this process, see runner history)
    try:
        from numba_scfg.core.datastructures.ast_transforms import SCFG2ASTTransformer, unparse_code

        global _SHARED
        if _SHARED is None:
            _SHARED = SCFG2ASTTransformer()
        out3 = _SHARED.transform(original=unparse_code(src)[0], scfg=scfg)
        for e in census(scfg, out3, names):
            if sig_of(e) in seen:
                continue
            sg = "shared-transformer:" + sig_of(e)
            if sg not in seen:
                seen.add(sg)
                fails.append({"kind": "census", "signature": sg, "detail": repr(e)[:300]})
    except NotImplementedError:
        pass
    except Exception as e:
        fails.append({"kind": "codegen", "signature": "shared-transformer:" + exc_signature(e), "detail": repr(e)[:200]})
    return fails, "ok"


def harness_for(gen_factory):
    def harness(E, ctx, aux):
        ch = s2.Chooser(E, getattr(ctx, "cube", ()))
        g = gen_factory(ch)
        src = g.program()
        ctx.current = {"kind": "program", "src": src}
        fails, status = check_program(src)
        ctx.evaluations += 1
        ctx.feature("programs")
        ctx.feature("pipeline:" + status)
        if status == "ok":
            ctx.nontrivial += 1
            ctx.sample({"src": src}, cap=1)
        for f in fails:
            ctx.fail(f["kind"], f["signature"], {"kind": "program", "src": src}, f["detail"])
    return harness


# ---- (b) S1 graphs with AST payloads -----------------------------------------


def check_graph(desc):
    from numba_scfg.core.datastructures.ast_transforms import SCFG2AST

    g = build_scfg(desc, "ast")
    try:
        g.restructure()
    except Exception:
        return [], "restructure-raised"
    try:
        out = SCFG2AST("def f(): pass", g)
    except NotImplementedError:
        return [], "refused"
    except Exception as e:
        return [{"kind": "codegen", "signature": "graph:codegen:" + exc_signature(e), "detail": repr(e)[:200]}], "error"
    names = set()
    for b in flatten(g).values():
        for st in getattr(b, "tree", []):
            names |= {n.id for n in ast.walk(st) if isinstance(n, ast.Name)}
    errs = census(g, out, names)
    fails = []
    seen = set()
    for e in errs:
        sg = "graph:" + sig_of(e)
        if sg not in seen:
            seen.add(sg)
            fails.append({"kind": "census", "signature": sg, "detail": repr(e)[:300]})
    return fails, "ok"


def graph_harness(E, ctx, aux, desc):
    d = {"kind": "graph", **desc}
    fails, status = check_graph(desc)
    ctx.evaluations += 1
    ctx.feature("graphs")
    ctx.feature("graph-pipeline:" + status)
    if status == "ok":
        ctx.nontrivial += 1
        ctx.sample(d, cap=1)
    for f in fails:
        ctx.fail(f["kind"], f["signature"], d, f["detail"])


def jobs(tier):
    out = []
    for j in _c07_jobs(tier):
        if j.harness.raising:
            continue  # same programs as the non-raising jobs; the census is static
        out.append(Job(name=j.name, space=j.space, harness=harness_for(j.harness.factory), bounds=j.bounds, budget_s=j.budget_s,
                       required=j.required, cubes_fn=j.cubes_fn, path_timeout_s=j.path_timeout_s))
    if tier == "quick":
        fac3 = lambda ch: s2.ArmLoopGen(ch, nested=True)
        out.append(Job(name="S2-loop-in-nested-branch-arm", space=lambda: (None, [], None), harness=harness_for(fac3),
                       bounds={"space": "S2-armloop nested in the arm of an enclosing if"}, budget_s=900,
                       cubes_fn=lambda: s2.enum_prefixes(lambda ch: fac3(ch).program(), 3)))
        fac2 = lambda ch: s2.CtlGen(ch, 3, 2, 2, kinds=["if", "while"], trail="never")
        out.append(Job(name="S2-ctl-c3-t2-if-while-bare", space=lambda: (None, [], None), harness=harness_for(fac2),
                       bounds={"space": "S2-ctl", "compounds<=": 3, "kinds": ["if", "while"], "depth<=": 2, "terminators<=": 2, "marker after a compound": "never"},
                       budget_s=900, cubes_fn=lambda: s2.enum_prefixes(lambda ch: fac2(ch).program(), 4)))
        fac = lambda ch: s2.CtlGen(ch, 3, 2, 1, kinds=["if", "ifelse", "while"])
        out.append(Job(name="S2-ctl-c3-core-kinds", space=lambda: (None, [], None), harness=harness_for(fac),
                       bounds={"space": "S2-ctl", "compounds<=": 3, "kinds": ["if", "ifelse", "while"], "depth<=": 2, "terminators<=": 1},
                       budget_s=900, cubes_fn=lambda: s2.enum_prefixes(lambda ch: fac(ch).program(), 3)))
    gj = s1_jobs(tier, graph_harness, with_routes=False)
    if tier == "quick":
        gj = gj[:2]  # N = 3, 4 all labellings
    else:
        gj = gj[:3]
    for j in gj:
        j.name = "AST-payload-" + j.name
    return out + gj


def replay(desc):
    if desc.get("kind") == "graph":
        return check_graph(desc)[0]
    return check_program(desc["src"])[0]

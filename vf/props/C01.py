"""C01 - restructuring preserves every execution path (both walkers, every stage prefix)."""
from vf.s1common import s1_jobs, sig_of, exc_signature, graph_features, front_end_jobs
from vf.oracles.hier import build_scfg, orig_map, STAGES, flat_walk_check, region_walk_check, flatten, staged, route_stages

PROPERTY = "C01"
LEVEL = "model_checking"
RULE = ("one closed CFG per solver-enumerated path; per graph and stage prefix the product of the original graph with the result "
        "(position, control-variable valuation, expected original block) is explored completely, once with the flat walker and once "
        "with the region walker; non-trivial = restructuring inserted at least one synthetic block")
FUNCTIONS = [
    "numba_scfg.core.datastructures.scfg:SCFG.join_returns",
    "numba_scfg.core.datastructures.scfg:SCFG.restructure_loop",
    "numba_scfg.core.datastructures.scfg:SCFG.restructure_branch",
    "numba_scfg.core.transformations:loop_restructure_helper",
    "numba_scfg.core.transformations:extract_region",
    "numba_scfg.core.transformations:update_exiting",
    "numba_scfg.core.transformations:restructure_branch",
    "numba_scfg.core.datastructures.scfg:SCFG.insert_block",
    "numba_scfg.core.datastructures.scfg:SCFG.insert_block_and_control_blocks",
    "numba_scfg.core.datastructures.scfg:SCFG.join_tails_and_exits",
    "numba_scfg.core.datastructures.basic_block:SyntheticBranch.replace_jump_targets",
]
ASSUMPTIONS = [
    "input domain: closed CFGs (DESIGN section 9), <= 2 ordered distinct successors, all labellings b0..b{N-1}",
    "decision sequences: unbounded, discharged exactly per graph by complete search of the finite product",
    "a stage that raises is C02's business and is skipped here (counted in feature_counters.stage-raised)",
    "nothing claimed beyond the block bound of each job",
]


def check(desc):
    fails = []
    orig = orig_map(desc)
    for k in route_stages(desc, (1, 2, 3)):
        try:
            g, _ = staged(desc, "basic", k)
        except Exception as e:
            # no graph after this stage: the paths of the original are not preserved by anything
            fails.append({"kind": "skip", "signature": "", "detail": f"stage prefix {k} raised"})
            fails.append({"kind": "stage-exception", "signature": f"s{k}:stage-exception:{exc_signature(e)}",
                          "detail": f"stage prefix {k} ({desc.get('route') or 'direct'}) raised {type(e).__name__}: {e}"[:300]})
            break
        for wname, walker in (("flat", flat_walk_check), ("region", region_walk_check)):
            try:
                errs = walker(orig, g)
            except Exception as e:  # the oracle must cope with any hierarchy
                errs = [("oracle-exception", type(e).__name__, str(e)[:80])]
            seen = set()
            for err in errs:
                sg = f"s{k}:{wname}:" + sig_of(err)
                if sg in seen:
                    continue
                seen.add(sg)
                fails.append({"kind": "path", "signature": sg, "detail": repr(err)[:300]})
    return fails


def harness(E, ctx, aux, desc):
    for f in graph_features(desc):
        ctx.feature(f)
    ctx.evaluations += 1
    ctx.sample(desc)
    fs = check(desc)
    if any(f["kind"] == "skip" for f in fs):
        ctx.feature("stage-raised")
    if (desc.get("route") or "direct") != "direct":
        ctx.nontrivial += 1
        for f in fs:
            if f["kind"] != "skip":
                ctx.fail(f["kind"], f["signature"], desc, f["detail"])
        return
    g = build_scfg(desc)
    orig = orig_map(desc)
    try:
        g.restructure()
        if len(flatten(g)) > len(orig):
            ctx.nontrivial += 1
    except Exception:
        pass
    for f in fs:
        if f["kind"] != "skip":
            ctx.fail(f["kind"], f["signature"], desc, f["detail"])


def jobs(tier):
    from vf.props.C14 import edit_step_jobs

    js = s1_jobs(tier, harness) + edit_step_jobs("paths") + front_end_jobs(tier, harness)
    js.sort(key=lambda j: "S1-N5" in j.name)  # the large job last (stable)
    return js


def replay(desc):
    if desc.get("kind") == "edit-step":
        from vf.props.C14 import edit_step

        return edit_step(desc["pre"], desc["ops"], "paths")
    return [f for f in check(desc) if f["kind"] != "skip"]

"""C18 - generated names are fresh: never reused, never clobbering existing blocks."""
import itertools
import time

import z3

from vf.runner import Job
from vf.spaces import s1_space, realise_s1
from vf.s1common import exc_signature
from vf.oracles.hier import STAGES, flatten, regions, make_block

PROPERTY = "C18"
LEVEL = "model_checking"
RULE = ("(a) ASTSMT: NameGenerator.new_block_name / new_region_name / new_var_name are translated from /repo's current source into z3 string/array "
        "terms; obligations discharged by the solver for ALL kinds (|kind| <= 10), ALL counter states and indices < 1000: counter step, name depends "
        "only on (kind, counter), pairwise injectivity of the 6 request-type pairings - the inductive step that makes histories of any length safe; "
        "(b) every request sequence of bounded length over adversarial kinds against one real generator shared with new sub-graphs; (c) every closed "
        "CFG (N <= 4) x naming scheme inside the generator's own namespace x stage prefix x optional write/read round trip: every name issued "
        "during a stage is recorded and must differ from every name present before the stage and from every name issued earlier; "
        "non-trivial = an obligation, a sequence issuing >= 2 names, or a history in which a stage issued >= 1 name")
FUNCTIONS = [
    "numba_scfg.core.datastructures.scfg:NameGenerator.new_block_name",
    "numba_scfg.core.datastructures.scfg:NameGenerator.new_region_name",
    "numba_scfg.core.datastructures.scfg:NameGenerator.new_var_name",
    "numba_scfg.core.datastructures.scfg:SCFG.__post_init__",
    "numba_scfg.core.datastructures.scfg:SCFG.add_block",
    "numba_scfg.core.datastructures.scfg:SCFGIO.from_dict",
    "numba_scfg.core.transformations:extract_region",
    "numba_scfg.core.datastructures.scfg:SCFG.restructure_loop",
    "numba_scfg.core.datastructures.scfg:SCFG.restructure_branch",
]
ASSUMPTIONS = [
    "(a) kind strings up to 10 characters, counters / indices in [0, 999] (3 digits); str(int) is modelled by the true facts 'decimal rendering matches 0|[1-9][0-9]* and is injective'",
    "(a) the translator is validated on every run by pushing concrete (kind, counter) pairs through both the real method and the formula",
    "(c) issued names are observed by wrapping the three NameGenerator methods in the harness process (no change to /repo)",
    "(c) a write/read round trip that raises is C15's business and ends the history",
]

METHODS = ["new_block_name", "new_region_name", "new_var_name"]
MAXLEN = 10
MAXIDX = 999


# ---------------------------------------------------------------------------
# (a) solver obligations


def _translate(render):
    from numba_scfg.core.datastructures.scfg import NameGenerator
    from vf.astsmt import Translator, DictModel

    out = {}
    for m in METHODS:
        out[m] = Translator(getattr(NameGenerator, m), render)
    return out


def _digits():
    d19 = z3.Range("1", "9")
    d09 = z3.Range("0", "9")
    return z3.Union(z3.Re("0"), z3.Concat(d19, z3.Star(d09)))


def obligations():
    """list of (name, thunk) ; thunk() -> ('unsat'|'sat'|'unknown'|'unsupported', detail, seconds)"""
    from vf.astsmt import DictModel, Unsupported

    R = z3.Function("render", z3.IntSort(), z3.StringSort())
    obs = []

    def state(tag):
        has = z3.Array("has" + tag, z3.StringSort(), z3.BoolSort())
        val = z3.Array("val" + tag, z3.StringSort(), z3.IntSort())
        k = z3.String("kind" + tag)
        old = z3.If(z3.Select(has, k), z3.Select(val, k), z3.IntVal(0))
        pre = z3.And(z3.Length(k) <= MAXLEN, old >= 0, old <= MAXIDX)
        return has, val, k, old, pre

    def render_axioms(idxs):
        ax = []
        for i in idxs:
            ax += [z3.InRe(R(i), _digits()), z3.Length(R(i)) <= 3]
        for a, b in itertools.combinations(idxs, 2):
            ax.append(z3.Implies(a != b, R(a) != R(b)))
        return ax

    def solve(name, build):
        def thunk():
            t = time.time()
            try:
                tr = _translate(lambda i: R(i))
                s = z3.Solver()
                s.set("timeout", 60000)
                for f in build(tr):
                    s.add(f)
                r = s.check()
                detail = ""
                if r == z3.sat:
                    detail = str(s.model())[:400]
                return str(r), detail, time.time() - t
            except Unsupported as e:
                return "unsupported", str(e), time.time() - t
        obs.append((name, thunk))

    for m in METHODS:
        def step(tr, m=m):
            has, val, k, old, pre = state("1")
            name, st = tr[m].run({"kind": k}, {"kinds": DictModel(has, val)})
            h2, v2 = st["kinds"].has, st["kinds"].val
            other = z3.String("other")
            good = z3.And(z3.Select(h2, k), z3.Select(v2, k) == old + 1,
                          z3.Implies(other != k, z3.And(z3.Select(h2, other) == z3.Select(has, other), z3.Select(v2, other) == z3.Select(val, other))))
            return [pre, z3.Not(good)] + render_axioms([old])
        solve(f"counter-step:{m}", step)

        def dep(tr, m=m):
            has, val, k, old, pre = state("1")
            has2, val2, _, _, _ = state("2")
            old2 = z3.If(z3.Select(has2, k), z3.Select(val2, k), z3.IntVal(0))
            n1, _ = tr[m].run({"kind": k}, {"kinds": DictModel(has, val)})
            n2, _ = tr[m].run({"kind": k}, {"kinds": DictModel(has2, val2)})
            return [pre, old2 == old, n1 != n2] + render_axioms([old, old2])
        solve(f"name-depends-only-on-kind-and-counter:{m}", dep)

    for m1, m2 in itertools.combinations_with_replacement(METHODS, 2):
        def inj(tr, m1=m1, m2=m2):
            has, val, k, old, pre = state("1")
            has2, val2, k2, old2, pre2 = state("2")
            n1, _ = tr[m1].run({"kind": k}, {"kinds": DictModel(has, val)})
            n2, _ = tr[m2].run({"kind": k2}, {"kinds": DictModel(has2, val2)})
            same = z3.And(k == k2, old == old2) if m1 == m2 else z3.BoolVal(False)
            return [pre, pre2, n1 == n2, z3.Not(same)] + render_axioms([old, old2])
        solve(f"injective:{m1}/{m2}", inj)
    return obs


def validate_translator():
    """differential: real method vs formula on concrete (kind, counter) pairs"""
    from numba_scfg.core.datastructures.scfg import NameGenerator
    from vf.astsmt import DictModel, Unsupported

    bad = []
    n = 0
    try:
        tr = _translate(lambda i: z3.IntToStr(i))
    except Unsupported as e:
        return [("unsupported", str(e))], 0
    for m in METHODS:
        for kind in ["a", "synth_head", "x_block_1", "", "loop"]:
            for idx in [None, 0, 7, 10, 999]:
                gen = NameGenerator(kinds={} if idx is None else {kind: idx})
                real = getattr(gen, m)(kind)
                has = z3.K(z3.StringSort(), z3.BoolVal(False))
                val = z3.K(z3.StringSort(), z3.IntVal(0))
                if idx is not None:
                    has = z3.Store(has, z3.StringVal(kind), z3.BoolVal(True))
                    val = z3.Store(val, z3.StringVal(kind), z3.IntVal(idx))
                try:
                    name, st = tr[m].run({"kind": z3.StringVal(kind)}, {"kinds": DictModel(has, val)})
                except Unsupported as e:
                    return [("unsupported", str(e))], n
                got = z3.simplify(name)
                newc = z3.simplify(z3.Select(st["kinds"].val, z3.StringVal(kind)))
                n += 1
                if not z3.is_string_value(got) or got.as_string() != real or newc.as_long() != gen.kinds[kind]:
                    bad.append((m, kind, idx, real, str(got), str(newc)))
    return bad, n


def space_a():
    n = len(obligations())
    k = z3.Int("obligation")
    return z3.And(k >= 0, k <= n), [k], {"k": k, "n": n}  # k == n: translator validation


def harness_a(E, ctx, aux):
    k = E.realize(aux["k"])
    ctx.evaluations += 1
    if k == aux["n"]:
        bad, n = validate_translator()
        ctx.extra["translator_validation_cases"] += n
        if bad and bad[0][0] == "unsupported":
            ctx.extra["astsmt_inconclusive"] += 1
            ctx.feature("astsmt-unsupported-construct")
            return
        ctx.nontrivial += 1
        for b in bad:
            ctx.fail("translator", "astsmt:translator-disagrees-with-real-method", {"kind": "astsmt", "obligation": "validate"}, repr(b))
        return
    name, thunk = obligations()[k]
    r, detail, secs = thunk()
    ctx.extra["obligations"] += 1
    ctx.extra["solver_ms"] += int(secs * 1000)
    ctx.feature("obligation:" + r)
    ctx.sample({"obligation": name, "verdict": r, "seconds": round(secs, 2)}, cap=2)
    if r == "unsat":
        ctx.extra["obligations_discharged"] += 1
        ctx.nontrivial += 1
    elif r == "sat":
        ctx.nontrivial += 1
        ctx.fail("obligation", "astsmt:" + name, {"kind": "astsmt", "obligation": name}, detail)
    else:
        ctx.extra["astsmt_inconclusive"] += 1


def replay_astsmt(desc):
    """concrete search for a collision / bad step on the real generator (engine-free)"""
    from numba_scfg.core.datastructures.scfg import NameGenerator

    fails = []
    kinds = ["a", "a_block", "a_block_1", "a_region_0", "b", "", "a_var_0", "scfg_a", "1", "_"]
    idxs = [None, 0, 1, 2, 10, 11, 99, 100]
    seen = {}
    for m in METHODS:
        for k in kinds:
            for i in idxs:
                g = NameGenerator(kinds={} if i is None else {k: i, "zz": 5})
                name = getattr(g, m)(k)
                old = 0 if i is None else i
                if g.kinds.get(k) != old + 1 or (i is not None and g.kinds.get("zz") != 5):
                    fails.append({"kind": "obligation", "signature": f"astsmt:counter-step:{m}", "detail": repr((k, i, dict(g.kinds)))})
                key = (m, k, old)
                if name in seen and seen[name] != key:
                    a, b = sorted([seen[name][0], m])
                    fails.append({"kind": "obligation", "signature": f"astsmt:injective:{a}/{b}", "detail": repr((name, seen[name], key))})
                seen[name] = key
    want = desc.get("obligation")
    return [f for f in fails if f["signature"] == "astsmt:" + str(want)] or fails[:1] if fails else []


# ---------------------------------------------------------------------------
# (b) request sequences on the real generator

KINDS_B = ["a", "a_block", "a_block_0", "a_region_0", "meta"]
TYPES_B = ["block", "region", "var", "subgraph"]


def run_sequence(seq):
    from numba_scfg.core.datastructures.scfg import NameGenerator, SCFG

    top = SCFG({})
    gen = top.name_gen
    names = [top.region.name]
    for kind, typ in seq:
        if typ == "block":
            names.append(gen.new_block_name(kind))
        elif typ == "region":
            names.append(gen.new_region_name(kind))
        elif typ == "var":
            names.append(gen.new_var_name(kind))
        else:
            names.append(SCFG({}, name_gen=gen).region.name)
    fails = []
    if len(set(names)) != len(names):
        dup = sorted(n for n in set(names) if names.count(n) > 1)
        fails.append({"kind": "sequence", "signature": "sequence:name-issued-twice", "detail": repr((dup, seq))})
    return fails, names


def space_b(L):
    K = [z3.Int(f"k{i}") for i in range(L)]
    T = [z3.Int(f"t{i}") for i in range(L)]
    cs = []
    for i in range(L):
        cs += [K[i] >= 0, K[i] < len(KINDS_B), T[i] >= 0, T[i] < len(TYPES_B)]
    return z3.And(cs), [K[0], T[0]], {"K": K, "T": T, "L": L}


def harness_b(E, ctx, aux):
    seq = [[KINDS_B[E.realize(aux["K"][i])], TYPES_B[E.realize(aux["T"][i])]] for i in range(aux["L"])]
    desc = {"kind": "sequence", "seq": seq}
    ctx.current = desc
    ctx.evaluations += 1
    fails, names = run_sequence(seq)
    if len(names) >= 3:
        ctx.nontrivial += 1
    ctx.sample({"seq": seq, "names": names}, cap=1)
    for f in fails:
        ctx.fail(f["kind"], f["signature"], desc, f["detail"])


# ---------------------------------------------------------------------------
# (b2) names present in a graph handed to SCFG() are never handed out again

RES_KINDS = ["synth_asign", "loop", "control", "a_block_1", "head"]
RES_IDX = [0, 1, 9, 10, 11, 99, 100]
RES_HOLDERS = ["block", "region", "assignment-variable", "branch-variable", "nested-region", "shared-generator-subgraph"]


def run_reservation(desc):
    from numba_scfg.core.datastructures.scfg import SCFG, NameGenerator
    from numba_scfg.core.datastructures.basic_block import BasicBlock, RegionBlock, SyntheticAssignment, SyntheticHead

    kind, idx, holder, req = desc["kindname"], desc["idx"], desc["holder"], desc["request"]
    fails = []
    shapes = {"block": f"{kind}_block_{idx}", "region": f"{kind}_region_{idx}", "var": f"__scfg_{kind}_var_{idx}__"}
    gen = None
    if holder == "block":
        name = shapes["block"]
        g = SCFG({name: BasicBlock(name)})
    elif holder == "region":
        name = shapes["region"]
        g = SCFG({name: RegionBlock(name=name, kind="loop", header="h", exiting="h", subregion=SCFG({"h": BasicBlock("h")}))})
    elif holder == "nested-region":
        name = shapes["region"]
        gen = NameGenerator()
        inner = SCFG({name: RegionBlock(name=name, kind="loop", header="h", exiting="h", subregion=SCFG({"h": BasicBlock("h")}, name_gen=gen))}, name_gen=gen)
        g = SCFG({"outer_x": RegionBlock(name="outer_x", kind="tail", header=name, exiting=name, subregion=inner)}, name_gen=gen)
    elif holder == "assignment-variable":
        name = shapes["var"]
        g = SCFG({"a": SyntheticAssignment(name="a", variable_assignment={name: 1})})
    elif holder == "branch-variable":
        name = shapes["var"]
        g = SCFG({"a": SyntheticHead(name="a", _jump_targets=("b",), variable=name, branch_value_table={0: "b"}), "b": BasicBlock("b")})
    else:  # a sub-graph created later with the shared generator holds the name
        name = shapes["block"]
        top = SCFG({"t": BasicBlock("t")})
        SCFG({name: BasicBlock(name)}, name_gen=top.name_gen)
        g = top
    issued = []
    for _ in range(3):
        m = {"block": g.name_gen.new_block_name, "region": g.name_gen.new_region_name, "var": g.name_gen.new_var_name}[req]
        issued.append(m(kind))
    if name in issued:
        fails.append({"kind": "reservation", "signature": f"reservation:present-name-issued:{holder}:{req}", "detail": repr((name, issued))})
    if len(set(issued)) != len(issued):
        fails.append({"kind": "reservation", "signature": "reservation:name-issued-twice", "detail": repr(issued)})
    return fails


def space_r():
    k, i, h, r = z3.Int("rk"), z3.Int("ri"), z3.Int("rh"), z3.Int("rr")
    cs = z3.And(k >= 0, k < len(RES_KINDS), i >= 0, i < len(RES_IDX), h >= 0, h < len(RES_HOLDERS), r >= 0, r < 3)
    return cs, [h, r], {"k": k, "i": i, "h": h, "r": r}


def harness_r(E, ctx, aux):
    desc = {"kind": "reservation", "kindname": RES_KINDS[E.realize(aux["k"])], "idx": RES_IDX[E.realize(aux["i"])],
            "holder": RES_HOLDERS[E.realize(aux["h"])], "request": ["block", "region", "var"][E.realize(aux["r"])]}
    ctx.current = desc
    ctx.evaluations += 1
    ctx.nontrivial += 1
    ctx.sample(desc, cap=1)
    for f in run_reservation(desc):
        ctx.fail(f["kind"], f["signature"], desc, f["detail"])


# ---------------------------------------------------------------------------
# (c) histories

SCHEMES = [
    ["b0", "b1", "b2", "b3", "b4"],
    ["synth_asign_block_0", "synth_asign_block_1", "synth_asign_block_2", "synth_asign_block_3", "synth_asign_block_4"],
    ["synth_exit_latch_block_0", "synth_return_block_0", "synth_exit_block_0", "synth_head_block_0", "synth_tail_block_0"],
    ["loop_region_0", "head_region_0", "branch_region_0", "tail_region_0", "synth_fill_block_0"],
    ["synth_tail_block_0", "branch_region_1", "synth_asign_block_1", "loop_region_1", "meta_region_1"],
    # indices with two digits next to the one-digit index that advances the counter up to them
    ["synth_asign_block_9", "synth_asign_block_10", "synth_exit_latch_block_10", "synth_asign_block_11", "loop_region_10"],
    ["synth_head_block_9", "synth_head_block_10", "head_region_9", "head_region_10", "synth_tail_block_10"],
]


class Recorder:
    def __init__(self):
        self.issued = []

    def __enter__(self):
        from numba_scfg.core.datastructures.scfg import NameGenerator

        self.cls = NameGenerator
        self.saved = {m: getattr(NameGenerator, m) for m in METHODS}
        rec = self

        def wrap(m, f):
            def w(self_, kind):
                r = f(self_, kind)
                rec.issued.append((m, r))
                return r
            return w

        for m, f in self.saved.items():
            setattr(NameGenerator, m, wrap(m, f))
        return self

    def __exit__(self, *a):
        for m, f in self.saved.items():
            setattr(self.cls, m, f)


def all_names(g):
    names = set(flatten(g)) | set(regions(g))
    vars_ = set()
    for b in flatten(g).values():
        vars_ |= set(getattr(b, "variable_assignment", {}) or {})
        if getattr(b, "variable", None):
            vars_.add(b.variable)
    return names, vars_


import re as _re

_RE_B = _re.compile(r"^(.*)_block_(\d+)$", _re.S)
_RE_R = _re.compile(r"^(.*)_region_(\d+)$", _re.S)
_RE_V = _re.compile(r"^__scfg_(.*)_var_(\d+)__$", _re.S)


def probe_fresh(g):
    """'A generated name never equals the name of a block already present in the graph': for every kind of name that
    occurs in the hierarchy (derived from the names themselves) one more name of that kind is requested from a COPY of
    each level's generator; it must not be present anywhere in the hierarchy.  -> [(request, kind, name)]"""
    names, vars_ = all_names(g)
    kinds_b = {m.group(1) for n in names for m in [_RE_B.match(n)] if m}
    kinds_r = {m.group(1) for n in names for m in [_RE_R.match(n)] if m}
    kinds_v = {m.group(1) for n in vars_ for m in [_RE_V.match(n)] if m}
    gens = {id(g.name_gen): g.name_gen}
    for r in regions(g).values():
        gens.setdefault(id(r.subregion.name_gen), r.subregion.name_gen)
    bad = []
    for ng in gens.values():
        for req, kinds, pool in (("new_block_name", kinds_b, names), ("new_region_name", kinds_r, names), ("new_var_name", kinds_v, vars_)):
            for k in sorted(kinds):
                c = type(ng)(kinds=dict(ng.kinds))
                nm = getattr(c, req)(k)
                if nm in pool:
                    bad.append((req, k, nm))
    return bad


def run_history(desc):
    from numba_scfg.core.datastructures.scfg import SCFG

    names = desc.get("names")
    fails = []

    def fail(sig, detail):
        fails.append({"kind": "history", "signature": sig, "detail": str(detail)[:300]})

    blocks = {n: make_block(n, s, "basic", i) for i, (n, s) in enumerate(zip(names or [], desc.get("succ") or []))}
    if desc.get("vars"):
        # one-successor input blocks become assignments to names inside the variable namespace
        from numba_scfg.core.datastructures.basic_block import SyntheticAssignment

        taken = ["__scfg_control_var_0__", "__scfg_exit_var_0__", "__scfg_backedge_var_0__"]
        for n, b in list(blocks.items()):
            if len(b._jump_targets) == 1:
                blocks[n] = SyntheticAssignment(name=n, _jump_targets=b._jump_targets, variable_assignment={v: 0 for v in taken})
    if desc.get("src") and desc.get("front") == "bytecode":
        from numba_scfg.core.datastructures.byte_flow import ByteFlow

        ns = {}
        exec(compile(desc["src"], "<c18>", "exec"), ns)
        g = ByteFlow.from_bytecode(ns["f"]).scfg
    else:
        g = SCFG(blocks) if not desc.get("src") else __import__("numba_scfg.core.datastructures.ast_transforms", fromlist=["AST2SCFG"]).AST2SCFG(desc["src"])
    for req, k, nm in probe_fresh(g):
        fail(f"history:input-graph:next-name-already-present:{req}", (k, nm))
    issued_all = []
    issued_any = False
    stages = list(STAGES)
    if desc.get("partial"):
        # a partial stage: loops of the outermost level only, then (after the optional reload) the full stage
        stages = ["join_returns", "restructure_loop_top", "restructure_loop", "restructure_branch"]
    for si, stage in enumerate(stages):
        if desc["reload_before"] == si:
            try:
                g, _ = SCFG.from_dict(g.to_dict())
            except Exception:
                return fails, issued_any
        before_names, before_vars = all_names(g)
        try:
            with Recorder() as rec:
                if stage == "restructure_loop_top":
                    from numba_scfg.core.transformations import restructure_loop as _rl

                    _rl(g.region)
                else:
                    getattr(g, stage)()
        except Exception:
            return fails, issued_any
        tag = ("reloaded:" if 0 <= desc["reload_before"] <= si else "") + stage
        for m, name in rec.issued:
            issued_any = True
            pool = before_vars if m == "new_var_name" else before_names
            if name in pool and not name.startswith("meta_region"):
                fail(f"history:{tag}:issued-name-already-present:{m}", (name, sorted(pool)[:6]))
            if (m, name) in issued_all or name in [x for _, x in issued_all]:
                fail(f"history:{tag}:name-issued-twice:{m}", name)
            issued_all.append((m, name))
        if si == len(stages) - 1 or desc["reload_before"] == si + 1:
            # before the graph is written out, and at the end of the history
            for req, k, nm in probe_fresh(g):
                fail(f"history:{tag}:next-name-already-present:{req}", (k, nm))
        after_names, _ = all_names(g)
        lost = before_names - after_names
        if lost:
            fail(f"history:{tag}:block-disappeared", sorted(lost)[:4])
    return fails, issued_any


def space_c(N, entry=None):
    f, cubes, aux = s1_space(N, entry=entry)
    sc, rl, vr, pt = z3.Int("scheme"), z3.Int("reload"), z3.Int("vars"), z3.Int("partial")
    aux["scheme"], aux["reload"], aux["vars"], aux["partial"] = sc, rl, vr, pt
    return z3.And(f, sc >= 0, sc < len(SCHEMES), rl >= -1, rl <= 3, vr >= 0, vr <= 1, pt >= 0, pt <= 1, z3.Implies(pt == 0, rl <= 2),
                  z3.Implies(pt == 1, z3.And(vr == 0, sc <= 1))), [sc, rl, vr, pt, aux["e"]] + (aux["A"][:2] if N >= 4 else []), aux


def harness_c(E, ctx, aux):
    d = realise_s1(E, aux)
    sc = E.realize(aux["scheme"])
    rl = E.realize(aux["reload"])
    vr = E.realize(aux["vars"])
    pt = E.realize(aux["partial"])
    N = aux["N"]
    m = {f"b{i}": SCHEMES[sc][i] for i in range(N)}
    desc = {"kind": "history", "names": [m[n] for n in d["names"]], "succ": [[m[t] for t in s] for s in d["succ"]], "reload_before": rl, "vars": vr, "partial": pt}
    ctx.current = desc
    ctx.evaluations += 1
    fails, issued = run_history(desc)
    if issued:
        ctx.nontrivial += 1
    ctx.feature(f"scheme:{sc}")
    ctx.feature(f"reload-before-stage:{rl}")
    ctx.sample(desc, cap=1)
    seen = set()
    for f in fails:
        if f["signature"] in seen:
            continue
        seen.add(f["signature"])
        ctx.fail(f["kind"], f["signature"], desc, f["detail"])


def harness_src_for(factory, front="source"):
    from vf import s2

    def h(E, ctx, aux):
        ch = s2.Chooser(E, getattr(ctx, "cube", ()))
        src = factory(ch).program()
        if front == "bytecode":
            ns = {}
            exec(compile(src, "<c18>", "exec"), ns)
            if ns["f"].__code__.co_exceptiontable:
                return
        for rl in (-1, 1, 2):
            desc = {"kind": "history", "src": src, "reload_before": rl, "front": front}
            ctx.current = desc
            ctx.evaluations += 1
            try:
                fails, issued = run_history(desc)
            except NotImplementedError:
                continue
            if issued:
                ctx.nontrivial += 1
            seen = set()
            for f in fails:
                if f["signature"] not in seen:
                    seen.add(f["signature"])
                    ctx.fail(f["kind"], f["signature"], desc, f["detail"])
    return h


def jobs(tier):
    from vf import s2

    def srcjob(name, factory, depth, bounds, budget=900, front="source"):
        return Job(name=name, space=lambda: (None, [], None), harness=harness_src_for(factory, front), bounds=bounds, budget_s=budget,
                   cubes_fn=lambda: s2.enum_prefixes(lambda ch: factory(ch).program(), depth), path_timeout_s=30)

    js = [
        Job("reservation-on-construction", space_r, harness_r, bounds={"kinds": RES_KINDS, "indices": RES_IDX, "holders": RES_HOLDERS, "requests": 3}, budget_s=300),
        srcjob("histories-source-S2-ctl-c2" + ("-d2-t1" if tier == "quick" else "-d3-t2"),
               (lambda ch: s2.CtlGen(ch, 2, 2, 1)) if tier == "quick" else (lambda ch: s2.CtlGen(ch, 2, 3, 2)), 3,
               {"space": "source-derived graphs (AST2SCFG over S2-ctl)", "reload_before_stage": [1, 2]}, budget=1200),
        srcjob("histories-source-S2-loop-in-branch-arm", lambda ch: s2.ArmLoopGen(ch), 3,
               {"space": "source-derived graphs (AST2SCFG over S2-armloop)", "reload_before_stage": [-1, 1, 2]}, budget=900),
        srcjob("histories-source-S2-loop-in-nested-branch-arm", lambda ch: s2.ArmLoopGen(ch, nested=True), 3,
               {"space": "source-derived graphs (AST2SCFG over S2-armloop nested in an enclosing if)", "reload_before_stage": [-1, 1, 2]}, budget=900),
        srcjob("histories-source-S2-multi-exit-loop-then-branching-code", lambda ch: s2.SeqLoopGen(ch), 3,
               {"space": "source-derived graphs (AST2SCFG over S2-seqloop)", "reload_before_stage": [-1, 1, 2]}, budget=900),
        srcjob("histories-bytecode-S2-ctl-c2-d2-t1", lambda ch: s2.CtlGen(ch, 2, 2, 1), 3,
               {"space": "bytecode-derived graphs (ByteFlow over compiled S2-ctl)", "reload_before_stage": [-1, 1, 2]}, budget=900, front="bytecode"),
        Job("astsmt-obligations", space_a, harness_a, bounds={"kind_length<=": MAXLEN, "index<=": MAXIDX, "methods": METHODS}, budget_s=900, path_timeout_s=120),
        Job("request-sequences-L3", lambda: space_b(3), harness_b, bounds={"length": 3, "kinds": KINDS_B, "types": TYPES_B}, budget_s=600),
        Job("histories-N3", lambda: space_c(3), harness_c, bounds={"blocks": 3, "schemes": len(SCHEMES), "reload_before_stage": [-1, 0, 1, 2]}, budget_s=900),
    ]
    if tier == "quick":
        js.append(Job("histories-N4-entry-b0", lambda: space_c(4, 0), harness_c, bounds={"blocks": 4, "entry": "b0", "schemes": len(SCHEMES), "reload_before_stage": [-1, 0, 1, 2]}, budget_s=900))
    else:
        js.append(Job("request-sequences-L4", lambda: space_b(4), harness_b, bounds={"length": 4, "kinds": KINDS_B, "types": TYPES_B}, budget_s=900))
        js.append(Job("histories-N4", lambda: space_c(4), harness_c, bounds={"blocks": 4, "schemes": len(SCHEMES), "reload_before_stage": [-1, 0, 1, 2]}, budget_s=1800))
    return js


def post_coverage(cov, tier):
    ex = cov.get("extra", {})
    cov["obligations"] = int(ex.get("obligations", 0))
    cov["discharged"] = int(ex.get("obligations_discharged", 0))
    cov["astsmt_solver_time_s"] = round(ex.get("solver_ms", 0) / 1000.0, 2)


def replay(desc):
    if desc["kind"] == "astsmt":
        return replay_astsmt(desc)
    if desc["kind"] == "sequence":
        return run_sequence([tuple(x) for x in desc["seq"]])[0]
    if desc["kind"] == "reservation":
        return run_reservation(desc)
    return run_history(desc)[0]

"""C03 - the restructured graph is structured."""
from vf.props._s1prop import make, COMMON_FUNCTIONS, COMMON_ASSUMPTIONS
from vf.oracles.hier import check_struct, orig_map

PROPERTY = "C03"
LEVEL = "model_checking"
RULE = ("one closed CFG per solver-enumerated path, fully restructured; per level: acyclic without declared back edges, "
        "loop regions own exactly one latch whose single back edge reaches the header, every input cycle inside one loop region, "
        "multi-successor nodes are head regions over distinct branch regions joining in one tail region; non-trivial = synthetic block inserted")
FUNCTIONS = COMMON_FUNCTIONS
ASSUMPTIONS = COMMON_ASSUMPTIONS


def _oracle(desc, orig_blocks, g, k, payload):
    return check_struct(g, orig_map(desc))


check, harness, jobs, replay = make(_oracle, stages=(3,))

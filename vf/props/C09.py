"""C09 - the graph built from bytecode is exactly the bytecode's control flow."""
import dis
import opcode
import sys

import z3

from vf.runner import Job
from vf.s1common import exc_signature
from vf import s2

PROPERTY = "C09"
LEVEL = "model_checking"
RULE = ("(a) synthetic instruction streams of L instructions: per instruction a z3 opcode-class variable over EVERY real opcode of the running "
        "interpreter's opcode.hasjrel/hasjabs (minus generator-only ones), the returning opcodes and three non-jump opcodes with 0/1/4 inline "
        "cache entries; per jump a z3 target-index variable constrained by the opcode's direction; validity (ends in return/unconditional jump, no "
        "dead code) is a z3 formula; offsets from the interpreter's own inline-cache table; (b) every program of the bounded S2 grammar compiled by "
        "the running interpreter. Oracle from dis/opcode, not from the library's tables; non-trivial = stream/function with >= 1 jump")
FUNCTIONS = [
    "numba_scfg.core.datastructures.flow_info:FlowInfo.from_bytecode",
    "numba_scfg.core.datastructures.flow_info:FlowInfo.build_basicblocks",
    "numba_scfg.core.datastructures.flow_info:FlowInfo._add_jump_inst",
    "numba_scfg.core.datastructures.byte_flow:ByteFlow.from_bytecode",
    "numba_scfg.core.datastructures.basic_block:PythonBytecodeBlock.get_instructions",
    "numba_scfg.core.utils:is_conditional_jump",
    "numba_scfg.core.utils:is_unconditional_jump",
    "numba_scfg.core.utils:is_exiting",
    "numba_scfg.core.utils:_next_inst_offset",
    "numba_scfg.core.utils:_prev_inst_offset",
]
ASSUMPTIONS = [
    f"interpreter: CPython {sys.version_info.major}.{sys.version_info.minor} (the only supported version available in /venv); 3.11 is not run: the repository's dependencies are not installed for python3-vt",
    "no exception tables, raises, generators (the property excludes them): SEND, JUMP_BACKWARD_NO_INTERRUPT and pseudo opcodes are not generated",
    "no dead code: the instruction after a return / unconditional jump is a jump target (what CPython >= 3.11 emits)",
    "unconditional jump = opcode in hasjrel/hasjabs whose name starts with JUMP; returning = RETURN_VALUE / RETURN_CONST; other members of hasjrel/hasjabs are conditional (fall-through first, then target)",
    "the standard-library corpus of the property text is sampling (another family) and is not covered",
]

RETURNS = [n for n in ("RETURN_VALUE", "RETURN_CONST") if n in opcode.opmap]
EXCLUDED = {"SEND", "JUMP_BACKWARD_NO_INTERRUPT"}


def _cache(name):
    t = getattr(opcode, "_inline_cache_entries", None)
    if t is None:
        return 0
    if isinstance(t, dict):
        return t.get(name, 0)
    return t[opcode.opmap[name]]


def jump_opnames():
    out = []
    for c in sorted(set(opcode.hasjrel) | set(opcode.hasjabs)):
        n = opcode.opname[c]
        if c >= 256 or n.startswith("<") or n in EXCLUDED:
            continue
        if hasattr(opcode, "MIN_PSEUDO_OPCODE") and c >= opcode.MIN_PSEUDO_OPCODE:
            continue
        out.append(n)
    return out


def classes():
    plain = [n for n in ("NOP", "BINARY_OP", "LOAD_GLOBAL") if n in opcode.opmap]
    return jump_opnames() + RETURNS + plain


def kind(name):
    if name in RETURNS:
        return "return"
    if name in jump_opnames():
        return "uncond" if name.startswith("JUMP") else "cond"
    return "plain"


def direction(name):
    if opcode.opmap[name] in opcode.hasjabs:
        return "any"
    return "backward" if "BACKWARD" in name else "forward"


# ---------------------------------------------------------------------------
# oracle: instrs = list of (offset, opname, target_offset|None, is_jump_target, size)


def check_graph(instrs, graph, code_end):
    errs = []
    blocks = sorted(graph.values(), key=lambda b: b.begin)
    if not blocks:
        return [("no-blocks",)]
    if blocks[0].begin != 0:
        errs.append(("first-block-not-at-0", blocks[0].begin))
    for a, b in zip(blocks, blocks[1:]):
        if a.end != b.begin:
            errs.append(("gap-or-overlap", a.end, b.begin))
    last_off = instrs[-1][0]
    if not (last_off < blocks[-1].end <= code_end):
        errs.append(("last-block-end", blocks[-1].end, code_end))
    for b in blocks:
        if not b.begin < b.end:
            errs.append(("empty-range", b.begin, b.end))
    if errs:
        return errs
    by_name = {b.name: b for b in blocks}

    def block_of(off):
        for b in blocks:
            if b.begin <= off < b.end:
                return b
        return None

    inside = {b.name: [i for i in instrs if b.begin <= i[0] < b.end] for b in blocks}
    for i in instrs:
        owners = [b for b in blocks if b.begin <= i[0] < b.end]
        if len(owners) != 1:
            errs.append(("instruction-not-in-exactly-one-block", i[0], len(owners)))

    def entry_block(off):
        """the block that control enters when it goes to instruction `off`"""
        b = block_of(off)
        if b is None or not inside[b.name] or inside[b.name][0][0] != off:
            return None
        return b.name

    for b in blocks:
        ins = inside[b.name]
        for i in ins[1:]:
            if i[3]:
                errs.append(("jump-target-inside-block", i[1], b.begin, i[0]))
        for i in ins[:-1]:
            if kind(i[1]) != "plain":
                errs.append(("jump-or-return-inside-block", i[1], b.begin, i[0]))
        if not ins:
            nxt = block_of(b.end)
            if tuple(b._jump_targets) != ((nxt.name,) if nxt else ()):
                errs.append(("cache-only-block-not-fallthrough", b.begin))
            continue
        last = ins[-1]
        k = kind(last[1])
        nxt_off = last[0] + last[4]
        exp = []
        if k in ("plain", "cond"):
            exp.append(entry_block(nxt_off))
        if k in ("cond", "uncond"):
            exp.append(entry_block(last[2]))
        if None in exp:
            errs.append(("successor-not-a-block-entry", last[1], b.begin))
            continue
        def through_cache_only(name, depth=0):
            # a block holding only inline-cache slots is a pure pass-through
            while name in by_name and not inside[name] and len(by_name[name]._jump_targets) == 1 and depth < 50:
                name = by_name[name]._jump_targets[0]
                depth += 1
            return name

        if [through_cache_only(t) for t in b._jump_targets] != exp:
            errs.append(("successors-wrong", last[1], k, tuple(b._jump_targets), tuple(exp)))
        if b.backedges:
            errs.append(("backedge-declared-by-front-end", b.begin))
    # names known to the graph only
    for b in blocks:
        for t in b._jump_targets:
            if t not in by_name:
                errs.append(("dangling-target", b.begin, t))
    return errs


def sig(err):
    s = str(err[0])
    if len(err) > 1 and isinstance(err[1], str):
        s += ":" + err[1]
    return s


# ---------------------------------------------------------------------------
# (a) synthetic streams


def stream_space(L, max_prefixes=0):
    cl = classes()
    OP = [z3.Int(f"op{i}") for i in range(L)]
    TG = [z3.Int(f"tg{i}") for i in range(L)]
    # XA[i] = 1: instruction i carries an EXTENDED_ARG prefix (an instruction of its own in front of it; jumps to
    # instruction i land on the prefix).  NOP takes no argument and never has one.
    XA = [z3.Int(f"xa{i}") for i in range(L)]
    cs = []
    for i in range(L):
        cs += [XA[i] >= 0, XA[i] <= 1]
        if "NOP" in cl:
            cs.append(z3.Implies(OP[i] == cl.index("NOP"), XA[i] == 0))
    cs.append(z3.Sum(XA) <= max_prefixes)
    kinds = [kind(n) for n in cl]
    dirs = [direction(n) if kinds[j] in ("cond", "uncond") else None for j, n in enumerate(cl)]

    def is_kind(i, ks):
        return z3.Or([OP[i] == j for j in range(len(cl)) if kinds[j] in ks])

    for i in range(L):
        cs += [OP[i] >= 0, OP[i] < len(cl), TG[i] >= -1, TG[i] < L]
        cs.append(z3.Implies(is_kind(i, ("plain", "return")), TG[i] == -1))
        for j, n in enumerate(cl):
            if kinds[j] in ("cond", "uncond"):
                if dirs[j] == "forward":
                    cs.append(z3.Implies(OP[i] == j, TG[i] > i))
                elif dirs[j] == "backward":
                    cs.append(z3.Implies(OP[i] == j, z3.And(TG[i] >= 0, TG[i] <= i)))
                else:
                    cs.append(z3.Implies(OP[i] == j, TG[i] >= 0))
    cs.append(is_kind(L - 1, ("return", "uncond")))

    def is_target(i):
        return z3.Or([TG[j] == i for j in range(L)])

    for i in range(L - 1):
        cs.append(z3.Implies(is_kind(i, ("return", "uncond")), is_target(i + 1)))
    return z3.And(cs), [OP[0], TG[0], OP[1]] if L > 1 else [OP[0]], {"L": L, "OP": OP, "TG": TG, "XA": XA}


def build_stream(ops, tgs, xas=None):
    """-> (dis.Instruction list, oracle tuples, code_end)"""
    xas = xas or [0] * len(ops)
    offs = []  # where control lands when it goes to instruction i (its EXTENDED_ARG prefix, if any)
    o = 0
    for n, xa in zip(ops, xas):
        offs.append(o)
        o += 2 * xa + 2 * (1 + _cache(n))
    targets = {offs[t] for t in tgs if t >= 0}
    ins, orc = [], []

    def emit(name, off, tgt, size):
        vals = dict(opname=name, opcode=opcode.opmap[name], arg=1 if name == "EXTENDED_ARG" else 0, argval=tgt if tgt is not None else (1 if name == "EXTENDED_ARG" else 0),
                    argrepr="", offset=off, starts_line=None, is_jump_target=off in targets, positions=None)
        ins.append(dis.Instruction(**{k: vals.get(k) for k in dis.Instruction._fields}))
        orc.append((off, name, tgt, off in targets, size))

    for i, n in enumerate(ops):
        tgt = offs[tgs[i]] if tgs[i] >= 0 else None
        off = offs[i]
        if xas[i]:
            emit("EXTENDED_ARG", off, None, 2)
            off += 2
        emit(n, off, tgt, 2 * (1 + _cache(n)))
    return ins, orc, o


def check_stream(desc):
    from numba_scfg.core.datastructures.flow_info import FlowInfo

    ins, orc, end = build_stream(desc["ops"], desc["targets"], desc.get("xarg"))
    fails = []
    try:
        fi = FlowInfo.from_bytecode(ins)
        g = fi.build_basicblocks()
    except Exception as e:
        last = desc["ops"][-1]
        return [{"kind": "exception", "signature": "stream:" + exc_signature(e).split(":", 3)[0] + ":" + "+".join(sorted(set(desc["ops"]) & (set(jump_opnames()) | set(RETURNS)))),
                 "detail": exc_signature(e) + " " + repr(e)[:100]}]
    seen = set()
    for err in check_graph(orc, g.graph, end):
        s = "stream:" + sig(err)
        if s not in seen:
            seen.add(s)
            fails.append({"kind": "graph", "signature": s, "detail": repr(err)[:300]})
    # instruction retrieval over inline-cache gaps
    bcmap = {i.offset: i for i in ins}
    got = []
    for b in sorted(g.graph.values(), key=lambda b: b.begin):
        got += [i.offset for i in b.get_instructions(bcmap)]
    if got != [i.offset for i in ins]:
        fails.append({"kind": "graph", "signature": "stream:get_instructions-wrong", "detail": repr(got)})
    return fails


def stream_harness(E, ctx, aux):
    cl = classes()
    L = aux["L"]
    ops = [cl[E.realize(aux["OP"][i])] for i in range(L)]
    tgs = [E.realize(aux["TG"][i]) for i in range(L)]
    xas = [E.realize(aux["XA"][i]) for i in range(L)]
    desc = {"kind": "stream", "ops": ops, "targets": tgs, "xarg": xas}
    if any(xas):
        ctx.feature("stream-with-EXTENDED_ARG")
    ctx.current = desc
    ctx.evaluations += 1
    for n in set(ops):
        ctx.feature("opcode:" + n)
    if any(t >= 0 for t in tgs):
        ctx.nontrivial += 1
    ctx.sample(desc, cap=1)
    for f in check_stream(desc):
        ctx.fail(f["kind"], f["signature"], desc, f["detail"])


# ---------------------------------------------------------------------------
# (b) compiled programs


def oracle_of_function(fn):
    ins = list(dis.get_instructions(fn))
    orc = []
    for k, i in enumerate(ins):
        nxt = ins[k + 1].offset if k + 1 < len(ins) else len(fn.__code__.co_code)
        tgt = i.argval if i.opcode in opcode.hasjrel or i.opcode in opcode.hasjabs else None
        orc.append((i.offset, i.opname, tgt, i.is_jump_target, nxt - i.offset))
    return orc, len(fn.__code__.co_code)


def check_source(src, name="f"):
    from numba_scfg.core.datastructures.byte_flow import ByteFlow

    ns = {}
    exec(compile(src, "<c09>", "exec"), ns)
    fn = ns[name]
    if fn.__code__.co_exceptiontable:
        return [], "has-exception-table"
    orc, end = oracle_of_function(fn)
    ops = {o[1] for o in orc}
    try:
        flow = ByteFlow.from_bytecode(fn)
    except Exception as e:
        special = sorted(ops & (set(jump_opnames()) | set(RETURNS)))
        return [{"kind": "exception", "signature": "function:" + exc_signature(e).split(":", 3)[0] + ":" + "+".join(special),
                 "detail": exc_signature(e) + " " + repr(e)[:100]}], "raised"
    fails = []
    seen = set()
    for err in check_graph(orc, flow.scfg.graph, end):
        s = "function:" + sig(err)
        if s not in seen:
            seen.add(s)
            fails.append({"kind": "graph", "signature": s, "detail": repr(err)[:300]})
    bcmap = flow.scfg.bcmap_from_bytecode(flow.bc)
    got = []
    for b in sorted(flow.scfg.graph.values(), key=lambda b: b.begin):
        got += [i.offset for i in b.get_instructions(bcmap)]
    if got != [o[0] for o in orc]:
        fails.append({"kind": "graph", "signature": "function:get_instructions-wrong", "detail": repr(got)[:200]})
    # history: the graph of a second build must not depend on what was done to the first one
    try:
        flow.scfg.restructure()
    except Exception:
        pass  # C02's business
    try:
        flow2 = ByteFlow.from_bytecode(fn)
        errs2 = check_graph(orc, flow2.scfg.graph, end)
    except Exception as e:
        errs2 = [("second-build-exception", type(e).__name__)]
    for err in errs2:
        s2_ = "function:second-build:" + sig(err)
        if s2_ not in seen:
            seen.add(s2_)
            fails.append({"kind": "graph", "signature": s2_, "detail": repr(err)[:300]})
    # a decorated function: the graph must describe the bytecode of the function that was passed in
    import functools

    def _deco(g):
        @functools.wraps(g)
        def wrapper(*a, **k):
            if a:
                return g(*a, **k)
            return None
        return wrapper

    w = _deco(fn)
    orc_w, end_w = oracle_of_function(w)
    try:
        flow_w = ByteFlow.from_bytecode(w)
        errs_w = check_graph(orc_w, flow_w.scfg.graph, end_w)
    except Exception as e:
        errs_w = [("wrapped-function-exception", type(e).__name__)]
    for err in errs_w:
        s3_ = "function:wrapped:" + sig(err)
        if s3_ not in seen:
            seen.add(s3_)
            fails.append({"kind": "graph", "signature": s3_, "detail": repr(err)[:300]})
    return fails, "ok"


_LONG = "".join(f"        x += {k}\n" for k in range(140))
EXTRA_SOURCES = [
    "def f(x):\n    if x:\n" + _LONG + "    return x\n",                       # forward jump with EXTENDED_ARG
    "def f(x):\n    while x:\n" + _LONG + "    return x\n",                    # backward jump with EXTENDED_ARG
    "def f(x):\n    for i in range(x):\n" + _LONG + "        if x > 9:\n            break\n    return x\n",
    "def f(x):\n" + "".join(f"    x += {1000 + k}\n" for k in range(260)) + "    if x:\n        return 77777\n    return 88888\n",  # RETURN_CONST with a large constant index
    "def f(x):\n    return 1 if x is None else 2\n",
    "def f(x):\n    if x is not None:\n        return x\n    return 0\n",
    "def f(x):\n    while True:\n        x += 1\n        if x > 5:\n            break\n    return x\n",
    "def f(x):\n    pass\n",
    "def f(x, y):\n    return x and y or not x\n",
    "def f(x, y):\n    return x < y < 3\n",
    "def f(x):\n    for i in range(x):\n        for j in range(i):\n            if j == 2:\n                continue\n            if j == 3:\n                break\n        else:\n            x += 1\n    return x\n",
    "def f(x):\n    while x:\n        x -= 1\n    else:\n        return 5\n    return x\n",
    "def f(x):\n    a = [i for i in range(x)]\n    return a\n" if sys.version_info >= (3, 12) else "def f(x):\n    return x\n",
    "def f(x):\n    return x if x else (1 if x is None else 2)\n",
]


def program_harness_for(gen_factory):
    def harness(E, ctx, aux):
        ch = s2.Chooser(E, getattr(ctx, "cube", ()))
        g = gen_factory(ch)
        src = g.program()
        desc = {"kind": "function", "src": src}
        ctx.current = desc
        fails, status = check_source(src)
        ctx.evaluations += 1
        ctx.feature("function:" + status)
        ctx.nontrivial += 1
        ctx.sample(desc, cap=1)
        for f in fails:
            ctx.fail(f["kind"], f["signature"], desc, f["detail"])
    return harness


def extra_harness(E, ctx, aux):
    i = E.realize(aux["i"])
    src = EXTRA_SOURCES[i]
    desc = {"kind": "function", "src": src}
    fails, status = check_source(src)
    ctx.evaluations += 1
    ctx.nontrivial += 1
    ctx.feature("function:" + status)
    for f in fails:
        ctx.fail(f["kind"], f["signature"], desc, f["detail"])


def jobs(tier):
    def sj(L, budget=600, required=True, prefixes=0):
        return Job(f"streams-L{L}" + (f"-le{prefixes}-EXTENDED_ARG" if prefixes else ""), lambda: stream_space(L, prefixes), stream_harness,
                   bounds={"space": "S3(a) synthetic streams", "instructions": L, "opcode_classes": classes(), "EXTENDED_ARG prefixes<=": prefixes},
                   budget_s=budget, required=required)

    def pj(name, factory, depth, bounds, budget=900, required=True):
        return Job(name=name, space=lambda: (None, [], None), harness=program_harness_for(factory), bounds=bounds, budget_s=budget,
                   required=required, cubes_fn=lambda: s2.enum_prefixes(lambda ch: factory(ch).program(), depth))

    def xspace():
        i = z3.Int("i")
        return z3.And(i >= 0, i < len(EXTRA_SOURCES)), [i], {"i": i}

    js = [sj(1, prefixes=1), sj(2, prefixes=2), sj(3, prefixes=2), sj(4, prefixes=1)]
    js.append(Job("hand-written-functions", xspace, extra_harness, bounds={"functions": len(EXTRA_SOURCES)}, budget_s=120))
    if tier == "quick":
        js.append(pj("compiled-S2-ctl-c2-d2-t1", lambda ch: s2.CtlGen(ch, 2, 2, 1), 3, {"space": "S3(b) compiled S2-ctl", "compounds<=": 2}))
        js.append(pj("compiled-S2-expr-d1", lambda ch: s2.ExprGen(ch, 1, rich_leaves=True), 2, {"space": "S3(b) compiled S2-expr", "depth<=": 1}))
    else:
        js.append(sj(3, prefixes=3))
        js.append(sj(4, prefixes=2, budget=1800))
        js.append(sj(5, budget=1800))
        js.append(sj(6, budget=900, required=False))
        js.append(pj("compiled-S2-ctl-c2-d3-t2", lambda ch: s2.CtlGen(ch, 2, 3, 2, arg_tests=True), 3, {"space": "S3(b) compiled S2-ctl", "compounds<=": 2, "depth<=": 3}, budget=1800, required=False))
        js.append(pj("compiled-S2-expr-d2", lambda ch: s2.ExprGen(ch, 2), 3, {"space": "S3(b) compiled S2-expr", "depth<=": 2}, budget=1800))
        js.append(pj("compiled-S2-for", lambda ch: s2.ForGen(ch), 2, {"space": "S3(b) compiled S2-for"}))
    return js


def replay(desc):
    if desc["kind"] == "stream":
        return check_stream(desc)
    return check_source(desc["src"])[0]

"""C13 - graph queries return exactly what their definitions prescribe (S4 digraphs)."""
import itertools

from vf.runner import Job
from vf.spaces import s4_space, realise_s4
from vf.s1common import exc_signature

PROPERTY = "C13"
LEVEL = "model_checking"
RULE = ("one digraph per solver-enumerated path (N blocks + one external name, <= K ordered target slots per block, duplicates / self loops / "
        "external targets allowed); inside each path ALL begin/end pairs and ALL 2^N block subsets are evaluated against definitional oracles "
        "(Warshall closure, set comprehensions, remove-a-node reachability); non-trivial = graph has >= 1 in-graph edge")
FUNCTIONS = [
    "numba_scfg.core.datastructures.scfg:SCFG.compute_scc",
    "numba_scfg.networkx_vendored.scc:scc",
    "numba_scfg.core.datastructures.scfg:SCFG.is_reachable_dfs",
    "numba_scfg.core.datastructures.scfg:SCFG.find_head",
    "numba_scfg.core.datastructures.scfg:SCFG.find_headers_and_entries",
    "numba_scfg.core.datastructures.scfg:SCFG.find_exiting_and_exits",
    "numba_scfg.core.transformations:_doms",
    "numba_scfg.core.transformations:_post_doms",
    "numba_scfg.core.transformations:_imm_doms",
    "numba_scfg.core.transformations:_find_dominators_internal",
]
ASSUMPTIONS = [
    "find_head: precondition 'exactly one block without predecessor' (asserted by the code); otherwise an AssertionError is the accepted answer",
    "find_headers_and_entries on a subset no outside block jumps into: the documented fallback ([head of the graph], []) or empty lists are both accepted",
    "dominators: >= 1 entry (RuntimeError otherwise, documented); immediate dominators compared only when every block is reachable from an entry (resp. reaches an exit)",
    "plain BasicBlocks, with and without a declared back edge (queries are defined over the non-back-edge arcs, as BasicBlock.jump_targets documents); subsets are subsets of the graph's own blocks",
    "history dimension: one SCFG object edited into the next explored digraph (up to 3 digraphs in a row) through its public mapping and through add_block / remove_blocks, queried after every edit",
]


def closure(adj, n):
    R = [row[:] for row in adj]
    for k in range(n):
        for i in range(n):
            if R[i][k]:
                for j in range(n):
                    if R[k][j]:
                        R[i][j] = True
    return R


def dom_oracle(n, adj, entries):
    """dom[b] = {a : a == b or b unreachable from the entries once a is removed}"""
    out = []
    for b in range(n):
        s = set()
        for a in range(n):
            if a == b:
                s.add(a)
                continue
            seen = {x for x in entries if x != a}
            st = list(seen)
            while st:
                x = st.pop()
                for y in range(n):
                    if adj[x][y] and y != a and y not in seen:
                        seen.add(y)
                        st.append(y)
            if b not in seen:
                s.add(a)
        out.append(s)
    return out


def idom_oracle(n, dom):
    out = {}
    for b in range(n):
        strict = dom[b] - {b}
        cands = [a for a in strict if all(c in dom[a] for c in strict)]
        if len(cands) == 1:
            out[b] = cands[0]
        elif strict:
            out[b] = None  # not well defined
    return out


def check(desc):
    from numba_scfg.core.datastructures.scfg import SCFG
    from numba_scfg.core.datastructures.basic_block import BasicBlock
    from numba_scfg.core.transformations import _doms, _post_doms, _imm_doms

    names = desc["names"]
    raw = [tuple(t) for t in desc["targets"]]
    bes = [tuple(b) for b in desc.get("backedges", [[] for _ in names])]
    # the arcs the queries are defined over: jump targets that are not declared back edges (every occurrence of the name)
    tg = [tuple(t for t in raw[i] if t not in bes[i]) for i in range(len(names))]
    N = len(names)
    idx = {n: i for i, n in enumerate(names)}
    fails = []

    def fail(sig, detail):
        fails.append({"kind": "query", "signature": sig, "detail": str(detail)[:300]})

    def mk():
        return SCFG({names[i]: BasicBlock(names[i], raw[i], bes[i]) for i in range(N)})

    g = mk()
    adj = [[names[j] in tg[i] for j in range(N)] for i in range(N)]
    R = closure(adj, N)
    # --- SCC ---
    try:
        got = sorted(sorted(s) for s in g.compute_scc())
        exp = sorted({tuple(sorted(names[j] for j in range(N) if j == i or (R[i][j] and R[j][i]))) for i in range(N)})
        if got != [list(s) for s in exp]:
            fail("scc-wrong", (got, exp))
    except Exception as e:
        fail("scc-" + exc_signature(e), repr(e))
    # --- reachability ---
    for i in range(N):
        for j in range(N + 1):
            end = names[j] if j < N else "ext"
            if j < N:
                e = R[i][j]
            else:
                e = any((i == k or R[i][k]) and "ext" in tg[k] for k in range(N))
            try:
                r = g.is_reachable_dfs(names[i], end)
            except Exception as ex:
                fail("reach-" + exc_signature(ex), (names[i], end))
                continue
            if bool(r) != bool(e) or not isinstance(r, bool):
                fail("reach-wrong" + ("-self" if i == j else "-ext" if j == N else ""), (names[i], end, r, e))
    # --- head ---
    heads = [names[i] for i in range(N) if not any(adj[j][i] for j in range(N))]
    try:
        h = g.find_head()
        if len(heads) == 1:
            if h != heads[0]:
                fail("head-wrong", (h, heads))
        else:
            fail("head-no-precondition-check", (h, heads))
    except AssertionError:
        if len(heads) == 1:
            fail("head-assert-on-valid", heads)
    except Exception as ex:
        fail("head-" + exc_signature(ex), heads)
    # --- subset queries ---
    for mask in range(1, 2 ** N):
        sub = {names[i] for i in range(N) if mask >> i & 1}
        # "the inside targets of outside blocks": the statement does not say whether an arc that the outside block
        # declares a back edge counts; both readings are accepted where they differ (only with declared back edges)
        readings = []
        for arcs in ([tg] if raw == list(tg) or all(not b for b in bes) else [tg, raw]):
            eh, ee = set(), set()
            for o in range(N):
                if names[o] in sub:
                    continue
                hit = sub & set(arcs[o])
                if hit:
                    eh |= hit
                    ee.add(names[o])
            readings.append((eh, ee))
        try:
            hh, en = mk().find_headers_and_entries(set(sub))
            ok = False
            for eh, ee in readings:
                if eh:
                    ok = ok or (list(hh), list(en)) == (sorted(eh), sorted(ee))
                else:
                    ok = ok or (list(hh), list(en)) == ([], []) or (len(heads) == 1 and (list(hh), list(en)) == ([heads[0]], []))
            if not ok:
                eh, ee = readings[0]
                fail("headers-entries-wrong" if eh else "headers-entries-wrong-fallback", (sub, hh, en, sorted(eh), sorted(ee), heads))
        except AssertionError:
            if any(eh for eh, _ in readings) or len(heads) == 1:
                fail("headers-entries-assert", (sub,))
        except Exception as ex:
            fail("headers-entries-" + exc_signature(ex), (sub,))
        xi, xo = set(), set()
        for i in range(N):
            if names[i] in sub:
                out = [t for t in tg[i] if t not in sub]
                if out or not tg[i]:
                    xi.add(names[i])
                xo |= set(out)
        try:
            r = mk().find_exiting_and_exits(set(sub))
            if (list(r[0]), list(r[1])) != (sorted(xi), sorted(xo)):
                fail("exiting-exits-wrong", (sub, r, sorted(xi), sorted(xo)))
        except Exception as ex:
            fail("exiting-exits-" + exc_signature(ex), (sub,))
    # --- dominators ---
    for nm, fn, A, ents in (
        ("dom", _doms, adj, [i for i in range(N) if not any(adj[j][i] for j in range(N))]),
        ("postdom", _post_doms, [[adj[j][i] for j in range(N)] for i in range(N)],
         [i for i in range(N) if not any(adj[i][j] for j in range(N))]),
    ):
        if not ents:
            try:
                fn(mk())
                fail(nm + "-no-entry-accepted", tg)
            except RuntimeError:
                pass
            except Exception as ex:
                fail(nm + "-" + exc_signature(ex), tg)
            continue
        try:
            d = fn(mk())
        except Exception as ex:
            fail(nm + "-" + exc_signature(ex), tg)
            continue
        exp = dom_oracle(N, A, ents)
        bad = False
        if set(d) != set(names):
            fail(nm + "-keys", (sorted(d),))
            bad = True
        else:
            for b in range(N):
                if set(d[names[b]]) != {names[a] for a in exp[b]}:
                    fail(nm + "-wrong", (tg, names[b], sorted(d[names[b]]), sorted(names[a] for a in exp[b])))
                    bad = True
                    break
        if bad:
            continue
        # immediate dominators where well defined: all blocks reachable from the entries
        RA = closure(A, N)
        if all(b in ents or any(RA[e][b] for e in ents) for b in range(N)):
            try:
                im = _imm_doms({k: set(v) for k, v in d.items()})
            except Exception as ex:
                fail(nm + "-imm-" + exc_signature(ex), tg)
                continue
            eo = idom_oracle(N, exp)
            want = {names[b]: names[a] for b, a in eo.items() if a is not None}
            if dict(im) != want:
                fail(nm + "-imm-wrong", (tg, im, want))
    return fails


def live_check(history):
    """History dimension: ONE SCFG object is queried, edited into the next digraph (alternately through the public
    mapping `scfg.graph[name] = block` / `del scfg.graph[name]` - the library itself writes to it that way - and through
    remove_blocks / add_block), and queried again; the answers for the LAST digraph of `history` are compared with
    the definitional oracles (reachability, SCCs, head, dominators of the graph as it is now)."""
    from numba_scfg.core.datastructures.scfg import SCFG
    from numba_scfg.core.datastructures.basic_block import BasicBlock
    from numba_scfg.core.transformations import _doms, _post_doms

    fails = []
    g = None
    for step, desc in enumerate(history):
        names = desc["names"]
        tg = [tuple(t) for t in desc["targets"]]
        N = len(names)
        if g is None:
            g = SCFG({names[i]: BasicBlock(names[i], tg[i]) for i in range(N)})
        else:
            for i in range(N):
                cur = g.graph.get(names[i])
                if cur is not None and tuple(cur._jump_targets) == tg[i]:
                    continue
                if (step + i) % 2:
                    if cur is not None:
                        del g.graph[names[i]]
                    g.graph[names[i]] = BasicBlock(names[i], tg[i])
                else:
                    if cur is not None:
                        g.remove_blocks({names[i]})
                    g.add_block(BasicBlock(names[i], tg[i]))
            for extra in [n for n in g.graph if n not in names]:
                del g.graph[extra]
        last = step == len(history) - 1
        adj = [[names[j] in tg[i] for j in range(N)] for i in range(N)]
        R = closure(adj, N)
        for i in range(N):
            for j in range(N + 1):
                end = names[j] if j < N else "ext"
                e = R[i][j] if j < N else any((i == k or R[i][k]) and "ext" in tg[k] for k in range(N))
                try:
                    r = g.is_reachable_dfs(names[i], end)
                except Exception as ex:
                    if last:
                        fails.append({"kind": "query", "signature": "live:reach-" + exc_signature(ex), "detail": str((names[i], end))})
                    continue
                if last and bool(r) != bool(e):
                    fails.append({"kind": "query", "signature": "live:reach-wrong", "detail": str((tg, names[i], end, r, e))[:300]})
        try:
            got = sorted(sorted(c) for c in g.compute_scc())
            exp = sorted({tuple(sorted(names[j] for j in range(N) if j == i or (R[i][j] and R[j][i]))) for i in range(N)})
            if last and got != [list(c) for c in exp]:
                fails.append({"kind": "query", "signature": "live:scc-wrong", "detail": str((tg, got, exp))[:300]})
        except Exception as ex:
            if last:
                fails.append({"kind": "query", "signature": "live:scc-" + exc_signature(ex), "detail": repr(ex)})
        heads = [names[i] for i in range(N) if not any(adj[j][i] for j in range(N))]
        if len(heads) == 1:
            try:
                h = g.find_head()
                if last and h != heads[0]:
                    fails.append({"kind": "query", "signature": "live:head-wrong", "detail": str((tg, h, heads))})
            except Exception as ex:
                if last:
                    fails.append({"kind": "query", "signature": "live:head-" + exc_signature(ex), "detail": repr(ex)})
        for nm, fn, A, ents in (
            ("dom", _doms, adj, [i for i in range(N) if not any(adj[j][i] for j in range(N))]),
            ("postdom", _post_doms, [[adj[j][i] for j in range(N)] for i in range(N)], [i for i in range(N) if not any(adj[i][j] for j in range(N))]),
        ):
            if not ents:
                continue
            try:
                d = fn(g)
            except Exception as ex:
                if last:
                    fails.append({"kind": "query", "signature": f"live:{nm}-" + exc_signature(ex), "detail": repr(ex)})
                continue
            if last:
                exp = dom_oracle(N, A, ents)
                if set(d) != set(names) or any(set(d[names[b]]) != {names[a] for a in exp[b]} for b in range(N)):
                    fails.append({"kind": "query", "signature": f"live:{nm}-wrong", "detail": str((tg, {k: sorted(v) for k, v in d.items()}))[:300]})
    out, seen = [], set()
    for f in fails:
        if f["signature"] not in seen:
            seen.add(f["signature"])
            out.append(f)
    return out


_LIVE: dict = {}
LIVE_DEPTH = 3


def harness(E, ctx, aux):
    desc = realise_s4(E, aux)
    ctx.current = desc
    hist = [h for h in _LIVE.get(len(desc["names"]), []) if h["names"] == desc["names"]][-(LIVE_DEPTH - 1):]
    _LIVE[len(desc["names"])] = hist + [desc]
    if hist:
        for f in live_check(hist + [desc]):
            ctx.fail(f["kind"], f["signature"], dict(desc, live_history=hist), f["detail"])
        ctx.extra["live-object-histories"] += 1
    ctx.evaluations += 1
    n_in = sum(1 for t in desc["targets"] for x in t if x != "ext")
    if n_in:
        ctx.nontrivial += 1
    if any(n in t for n, t in zip(desc["names"], desc["targets"])):
        ctx.feature("self-loop")
    if any(len(set(t)) < len(t) for t in desc["targets"]):
        ctx.feature("duplicate-target")
    if any("ext" in t for t in desc["targets"]):
        ctx.feature("external-target")
    ctx.sample(desc)
    seen = set()
    for f in check(desc):
        if f["signature"] in seen:
            continue
        seen.add(f["signature"])
        ctx.fail(f["kind"], f["signature"], desc, f["detail"])


def jobs(tier):
    def mk(name, N, K, max_edges=None, budget=900.0, required=True, exp=None, be=False):
        return Job(name=name, space=lambda: s4_space(N, K, max_edges, backedges=be), harness=harness,
                   bounds={"space": "S4 digraphs", "blocks": N, "slots": K, "max_edges": max_edges, "external_names": 1,
                           "subsets": "all 2^N", "pairs": "all", "declared_back_edge_per_block": "none or any one of its target names" if be else "none"},
                   budget_s=budget, required=required, expect_paths=exp)

    def cnt(N, K):
        return sum((N + 1) ** k for k in range(K + 1)) ** N

    js = [mk("S4-N1-K3", 1, 3, exp=cnt(1, 3)), mk("S4-N2-K3", 2, 3, exp=cnt(2, 3)), mk("S4-N3-K2", 3, 2, exp=cnt(3, 2))]
    # blocks that declare one of their target names a back edge: the queries are defined over the remaining arcs
    js.append(mk("S4-N2-K3-declared-backedges", 2, 3, be=True))
    js.append(mk("S4-N3-K2-declared-backedges" + ("-le4-edges" if tier == "quick" else ""), 3, 2, max_edges=4 if tier == "quick" else None, be=True))
    if tier == "quick":
        js.append(mk("S4-N3-K3-le6-edges", 3, 3, max_edges=6))
        js.append(mk("S4-N4-K2-le5-edges", 4, 2, max_edges=5))
    else:
        js.append(mk("S4-N3-K3", 3, 3, exp=cnt(3, 3), budget=1800.0))
        js.append(mk("S4-N4-K2", 4, 2, exp=cnt(4, 2), budget=1800.0))
        js.append(mk("S4-N4-K3-le7-edges", 4, 3, max_edges=7, budget=900.0, required=False))
    return js


def replay(desc):
    fails = check(desc)
    if desc.get("live_history"):
        d = {k: v for k, v in desc.items() if k != "live_history"}
        fails += live_check(list(desc["live_history"]) + [d])
    return fails

"""Entry point:  python -m vf.main <Cxx> <quick|thorough>   |   --replay <file>"""
import importlib
import json
import logging
import os
import sys


def main(argv):
    logging.disable(logging.CRITICAL)
    if len(argv) >= 2 and argv[0] in ("--replay", "--replay-with-history"):
        with open(argv[1]) as fh:
            rec = json.load(fh)
        mod = importlib.import_module(f"vf.props.{rec['property']}")
        status_ok = "REPRODUCED"
        if argv[0] == "--replay-with-history":
            # state kept by the library between calls: process the recorded history first, in this fresh process
            status_ok = "REPRODUCED-WITH-HISTORY"
            for h in rec.get("history", []):
                try:
                    mod.replay(h)
                except BaseException:
                    pass
        fails = mod.replay(rec["input"])
        sigs = sorted({f["signature"] for f in fails})
        status = status_ok if sigs else "NOT-REPRODUCED"
        print("REPLAY-RESULT " + json.dumps({"status": status, "signatures": sigs}))
        for f in fails[:5]:
            print("  ", f["signature"], "|", f.get("detail", "")[:300])
        return 1 if sigs else 0
    if len(argv) < 2:
        print(__doc__)
        return 3
    pid, tier = argv[0], argv[1]
    tier = os.environ.get("VERIF_TIER", tier) if tier not in ("quick", "thorough") else tier
    from vf.runner import run_property

    return run_property(pid, tier)


if __name__ == "__main__":
    sys.exit(main(sys.argv[1:]))

"""S2 - bounded program grammar, symbolic runners and the block interpreter.

Every production choice of the grammar is a z3 integer realised by the engine
(`Chooser.choose`), so the solver - not a generator loop - enumerates the
programs and proves when none is left.  Arguments of the generated functions
and the values returned by external calls are SymInt and stay symbolic through
the original function, the CFG block interpreter and the regenerated function.
"""
from __future__ import annotations

import ast
import z3

from vf.engine import Abort, Engine, HarnessError, PathTimeout, SymBool, SymInt, _lift


# ---------------------------------------------------------------------------
# choices


class StopGen(BaseException):
    pass


class Chooser:
    """choose(n): first from the concrete prefix (cube), then symbolic."""

    def __init__(self, E, prefix=(), stop_after=None):
        self.E = E
        self.prefix = list(prefix)
        self.k = 0
        self.taken = []
        self.stop_after = stop_after

    def choose(self, n: int) -> int:
        if n <= 1:
            return 0
        if self.stop_after is not None and len(self.taken) >= self.stop_after:
            raise StopGen()
        i = self.k
        self.k += 1
        if i < len(self.prefix):
            v = self.prefix[i]
            assert 0 <= v < n, ("prefix out of range", self.prefix, i, n)
        else:
            var = z3.Int(f"g{i}")
            self.E.assume(z3.And(var >= 0, var < n))
            v = self.E.realize(var)
        self.taken.append(v)
        return v


def enum_prefixes(gen_fn, depth):
    """All feasible choice prefixes of length <= depth (solver-driven DFS)."""
    E = Engine()
    out = []

    def h(E):
        ch = Chooser(E, (), stop_after=depth)
        try:
            gen_fn(ch)
        except StopGen:
            pass
        out.append(tuple(ch.taken))

    if not E.explore(h):
        raise HarnessError("prefix enumeration not exhausted")
    return [list(p) for p in sorted(set(out))]


# ---------------------------------------------------------------------------
# S2-ctl: control skeletons

KINDS = ["if", "ifelse", "ifelif", "while", "whileelse", "for", "forelse"]


class CtlGen:
    """def f(x, y, n, c): control skeleton.

    block := marker [compound] [compound] [terminator]
    markers are `mark(k)` calls (logged, unique k) alternating with `v += k`;
    tests are distinct external calls `ext(k)` (symbolic decision) or, for `if`,
    comparisons on the arguments; loops are `while ext(k)` or `for i in range(n)`.
    """

    def __init__(self, ch, max_compounds=2, max_depth=2, max_term=2, arg_tests=False, seq=True, pass_bodies=False, kinds=None, trail="always"):
        self.ch = ch
        self.trail = trail  # marker statement after a compound: "always" | "never" (a loop / if may END an arm) | "choose"
        self.kinds = kinds or KINDS
        self.pass_bodies = pass_bodies
        self.compounds = max_compounds
        self.max_depth = max_depth
        self.terms = max_term
        self.arg_tests = arg_tests
        self.seq = seq
        self.site = 0
        self.markn = 0
        self.loopvar = 0
        self.kinds_used = []

    def marker(self, ind):
        self.markn += 1
        k = self.markn
        if k % 2:
            return [f"{ind}mark({k})"]
        return [f"{ind}v += {k}"]

    def test(self, loop=False):
        opts = ["ext"]
        if self.arg_tests and not loop:
            # `u` is bound nowhere: evaluating the test raises NameError - a test of names and comparisons only is not
            # free of effects
            opts += ["x < y", "x == 1", "not x", "c.a", "c[0]", "c[1] < 1", "ext2(0) < ext2(1)", "u < 1", "u"]
        o = opts[self.ch.choose(len(opts))]
        if o == "ext":
            s = self.site
            self.site += 1
            return f"ext({s})"
        if o.startswith("ext2"):
            s = self.site
            self.site += 2
            return f"ext({s}) < ext({s + 1})"
        return o

    def compound(self, ind, depth, inloop):
        kind = self.kinds[self.ch.choose(len(self.kinds))]
        self.kinds_used.append(kind)
        self.compounds -= 1
        out = []
        i2 = ind + "    "
        if kind in ("if", "ifelse", "ifelif"):
            out.append(f"{ind}if {self.test()}:")
            out += self.block(i2, depth + 1, inloop)
            if kind == "ifelif":
                out.append(f"{ind}elif {self.test()}:")
                out += self.block(i2, depth + 1, inloop)
            if kind in ("ifelse", "ifelif"):
                out.append(f"{ind}else:")
                out += self.block(i2, depth + 1, inloop)
        elif kind in ("while", "whileelse"):
            out.append(f"{ind}while {self.test(loop=True)}:")
            out += self.block(i2, depth + 1, True)
            if kind == "whileelse":
                out.append(f"{ind}else:")
                out += self.block(i2, depth + 1, inloop)
        else:
            self.loopvar += 1
            out.append(f"{ind}for i{self.loopvar} in range(n):")
            out += self.block(i2, depth + 1, True)
            if kind == "forelse":
                out.append(f"{ind}else:")
                out += self.block(i2, depth + 1, inloop)
        return out

    def block(self, ind, depth, inloop, force_compound=False):
        if self.pass_bodies and depth > 0 and (self.pass_bodies == "all" or self.ch.choose(2)):
            out = [f"{ind}pass"]
        else:
            out = self.marker(ind)
        ncomp = 0
        while self.compounds > 0 and depth < self.max_depth and ncomp < (2 if self.seq else 1):
            if force_compound and ncomp == 0:
                go = 1
            else:
                go = self.ch.choose(2)
            if not go:
                break
            out += self.compound(ind, depth, inloop)
            if self.trail == "always" or (self.trail == "choose" and self.ch.choose(2)):
                out += self.marker(ind)
            ncomp += 1
        if self.terms > 0 and depth > 0:
            opts = ["none", "return"] + (["break", "continue"] if inloop else [])
            t = opts[self.ch.choose(len(opts))]
            if t != "none":
                self.terms -= 1
                out.append(f"{ind}return v" if t == "return" else f"{ind}{t}")
        return out

    def program(self):
        lines = ["def f(x, y, n, c, v=0):"]
        if self.ch.choose(2) == 0:
            lines.append("    v = 0")
            self.block_first = False
        else:
            # the body starts with the first compound statement
            self.block_first = True
        body = self.block("    ", 0, False, force_compound=True)
        if self.block_first:
            body = body[1:]  # drop the leading marker
        lines += body
        tail = self.ch.choose(3)
        if tail == 0:
            lines.append("    return v")
        elif tail == 1:
            lines.append("    return v + x")
        # tail == 2: implicit `return None`
        return "\n".join(lines) + "\n"


# ---------------------------------------------------------------------------
# S2-loops: two nested loops, one terminator (optionally under an `if`) in every position


class LoopGen:
    """outer loop x inner loop (with / without else) x one break / continue / return
    placed in: inner body, inner else, outer body after the inner loop, outer else -
    directly or under an `if ext(k)`."""

    LOOPS = ["while", "whileelse", "for", "forelse"]
    PLACES = ["inner-body", "inner-else", "outer-after", "outer-else", "outer-before"]
    TERMS = ["break", "continue", "return v"]

    def __init__(self, ch):
        self.ch = ch
        self.kinds_used = []

    def head(self, kind, k, ind):
        if kind.startswith("while"):
            return f"{ind}while ext({k}):"
        return f"{ind}for i{k} in range(n):"

    def program(self):
        c = self.ch.choose
        outer = self.LOOPS[c(4)]
        inner = self.LOOPS[c(4)]
        place = self.PLACES[c(len(self.PLACES))]
        term = self.TERMS[c(3)]
        guarded = c(2)
        dead = ["", "pass", "break", "continue"][c(4)]  # a dead no-op / terminator right after the terminator
        self.kinds_used = [outer, inner]
        self.position = f"{place}:{term}:{'if' if guarded else 'bare'}:{dead or 'nodead'}"

        def T(ind):
            tail = [f"{ind}{dead}"] if dead else []
            if guarded:
                return [f"{ind}if ext(7):", f"{ind}    mark(70)", f"{ind}    {term}"] + [f"    {t}" for t in tail] + [f"{ind}mark(71)"]
            return [f"{ind}{term}"] + tail

        L = ["def f(x, y, n, c, v=0):", "    mark(1)"]
        L.append(self.head(outer, 0, "    "))
        L.append("        mark(2)")
        if place == "outer-before":
            L += T("        ")
        L.append(self.head(inner, 1, "        "))
        L += ["            mark(3)", "            v += 1"]
        if place == "inner-body":
            L += T("            ")
        if inner.endswith("else") or place == "inner-else":
            L += ["        else:", "            mark(4)"]
            if place == "inner-else":
                L += T("            ")
        L.append("        mark(5)")
        if place == "outer-after":
            L += T("        ")
        if outer.endswith("else") or place == "outer-else":
            L += ["    else:", "        mark(6)"]
            if place == "outer-else":
                t2 = "return v" if term != "return v" else term
                L += ([f"        if ext(7):", f"            {t2}"] if guarded else [f"        {t2}"])
                if dead == "pass":
                    L.append(("            " if guarded else "        ") + "pass")
        L += ["    mark(8)", "    return v"]
        return "\n".join(L) + "\n"


# ---------------------------------------------------------------------------
# S2-armloop: a loop that lives in (and may END) one arm of a branch, with up to two guarded terminators / plain
# branches in its body, next to an arm that may leave early - the shapes in which a loop REGION is a predecessor of
# a join with several headers


class ArmLoopGen:
    GUARDS = ["none", "break", "continue", "return v", "branch"]
    OTHER = ["no-else", "marker", "early-return", "plain-return"]

    def __init__(self, ch, nested=False):
        self.ch = ch
        self.nested = nested  # the whole if / else sits in the arm of an enclosing `if` (the loop region then ends an INNER arm)
        self.kinds_used = []

    def program(self):
        src = self._program()
        if not self.nested:
            return src
        lines = src.split("\n")
        head, body, tail = lines[:2], lines[2:-3], lines[-3:]  # def + mark(1) | the if/else | mark(9), return v, ''
        out = head + ["    if ext(9):"] + ["    " + ln for ln in body] + ["    else:", "        mark(30)"] + tail
        return "\n".join(out)

    def _program(self):
        c = self.ch.choose
        loop = ["while", "for"][c(2)]
        g1 = self.GUARDS[c(len(self.GUARDS))]
        g2 = self.GUARDS[c(len(self.GUARDS))]
        loop_else = c(2)
        pre = c(2)
        trail = c(2)
        other = self.OTHER[c(len(self.OTHER))]
        self.kinds_used = ["ifelse" if other != "no-else" else "if", loop]
        self.position = f"{loop}:{g1}:{g2}:{'else' if loop_else else 'noelse'}:{'pre' if pre else 'nopre'}:{'trail' if trail else 'last'}:{other}"
        L = ["def f(x, y, n, c, v=0):", "    mark(1)", "    if ext(0):"]
        if pre:
            L.append("        mark(2)")
        L.append("        while ext(1):" if loop == "while" else "        for i1 in range(n):")
        L.append("            mark(3)")
        k = 2
        for j, g in enumerate((g1, g2)):
            if g == "none":
                continue
            L.append(f"            if ext({k}):")
            k += 1
            L.append(f"                mark({10 + j})")
            if g != "branch":
                L.append(f"                {g}")
            L.append(f"            v += {j + 1}")
        if loop_else:
            L += ["        else:", "            mark(5)"]
        if trail:
            L.append("        mark(6)")
        if other == "marker":
            L += ["    else:", "        mark(7)"]
        elif other == "early-return":
            L += ["    else:", "        mark(7)", f"        if ext({k}):", "            mark(8)", "            return v"]
        elif other == "plain-return":
            L += ["    else:", "        return v"]
        L += ["    mark(9)", "    return v"]
        return "\n".join(L) + "\n"


# ---------------------------------------------------------------------------
# S2-seqloop: a loop that can be left in up to four ways (exhaustion, break, two returns), FOLLOWED by code that
# branches again (a second loop with an early exit, an early return in a nested if): multi-way synthetic branches whose
# arms contain further synthetic branches


class SeqLoopGen:
    GUARDS = ArmLoopGen.GUARDS
    AFTER = ["second-loop-early-return", "second-loop-break", "nested-if-return", "if-return", "if-else-returns"]

    def __init__(self, ch):
        self.ch = ch
        self.kinds_used = []

    def program(self):
        c = self.ch.choose
        loop = ["while", "for"][c(2)]
        g1 = self.GUARDS[c(len(self.GUARDS))]
        g2 = self.GUARDS[c(len(self.GUARDS))]
        loop_else = c(2)
        after = self.AFTER[c(len(self.AFTER))]
        self.kinds_used = [loop]
        self.position = f"{loop}:{g1}:{g2}:{'else' if loop_else else 'noelse'}:{after}"
        L = ["def f(x, y, n, c, v=0):", "    mark(1)"]
        L.append("    while ext(1):" if loop == "while" else "    for i1 in range(n):")
        L.append("        mark(3)")
        k = 2
        for j, g in enumerate((g1, g2)):
            if g == "none":
                continue
            L.append(f"        if ext({k}):")
            k += 1
            L.append(f"            mark({10 + j})")
            if g != "branch":
                L.append(f"            {g if g != 'return v' else 'return v + ' + str(100 * (j + 1))}")
            L.append(f"        v += {j + 1}")
        if loop_else:
            L += ["    else:", "        v += 7"]
        if after.startswith("second-loop"):
            t = "return v + 1000" if after.endswith("return") else "break"
            L += [f"    while ext({k}):", "        mark(20)", f"        if ext({k + 1}):", "            mark(21)", f"            {t}", "        v += 10"]
        elif after == "nested-if-return":
            L += [f"    if ext({k}):", "        mark(20)", f"        if ext({k + 1}):", "            mark(21)", "            return v + 1000", "        v += 10"]
        elif after == "if-return":
            L += [f"    if ext({k}):", "        mark(20)", "        return v + 1000"]
        else:
            L += [f"    if ext({k}):", "        mark(20)", "        return v + 1000", "    else:", "        mark(22)", "        return v + 2000"]
        L += ["    mark(9)", "    return v"]
        return "\n".join(L) + "\n"


# ---------------------------------------------------------------------------
# S2-deadscope: a name that is bound only in dead code (after return / break / continue) is still a LOCAL name of the
# function - reading it in live code raises UnboundLocalError, not NameError


class DeadScopeGen:
    PLACES = ["after-return-at-top", "after-return-in-if", "after-break", "after-continue", "after-return-in-loop"]
    READS = ["guarded-return", "augmented-assignment"]

    def __init__(self, ch):
        self.ch = ch
        self.kinds_used = []

    def program(self):
        c = self.ch.choose
        place = self.PLACES[c(len(self.PLACES))]
        read = self.READS[c(len(self.READS))]
        self.position = f"{place}:{read}"
        L = ["def f(x, y, n, c, v=0):", "    mark(1)"]
        rd = ["    if ext(0):", "        mark(2)", "        return w"] if read == "guarded-return" else ["    if ext(0):", "        mark(2)", "        v += w"]
        if place == "after-return-at-top":
            L += rd + ["    mark(3)", "    return v", "    w = 1"]
        elif place == "after-return-in-if":
            L += rd + ["    if ext(1):", "        mark(3)", "        return v", "        w = 1", "    mark(4)", "    return v"]
        else:
            t = {"after-break": "break", "after-continue": "continue", "after-return-in-loop": "return v"}[place]
            L += ["    while ext(1):", "        mark(3)"] + ["    " + r for r in rd] + [f"        {t}", "        w = 1", "    mark(4)", "    return v"]
        self.kinds_used = ["while"] if "loop" in place or place in ("after-break", "after-continue") else ["if"]
        return "\n".join(L) + "\n"


# ---------------------------------------------------------------------------
# S2-deadcode: compound statements (loops, ifs) that are dead - behind a return / break / continue of the same
# statement list; only unreachable blocks may be pruned, and all of them must be


class DeadCodeGen:
    PLACES = DeadScopeGen.PLACES
    DEAD = ["while", "for", "if", "if-else-return", "while-with-break"]

    def __init__(self, ch):
        self.ch = ch
        self.kinds_used = []

    def program(self):
        c = self.ch.choose
        place = self.PLACES[c(len(self.PLACES))]
        dead = self.DEAD[c(len(self.DEAD))]
        self.position = f"{place}:{dead}"
        D = {
            "while": ["while ext(7):", "    mark(70)"],
            "for": ["for i9 in range(n):", "    mark(71)"],
            "if": ["if ext(7):", "    mark(72)"],
            "if-else-return": ["if ext(7):", "    mark(73)", "else:", "    return v + 7"],
            "while-with-break": ["while ext(7):", "    mark(74)", "    if ext(8):", "        break"],
        }[dead] + ["mark(79)"]
        L = ["def f(x, y, n, c, v=0):", "    mark(1)"]
        if place == "after-return-at-top":
            L += ["    if ext(0):", "        mark(2)", "    return v"] + ["    " + d for d in D]
        elif place == "after-return-in-if":
            L += ["    if ext(1):", "        mark(3)", "        return v"] + ["        " + d for d in D] + ["    mark(4)", "    return v"]
        else:
            t = {"after-break": "break", "after-continue": "continue", "after-return-in-loop": "return v"}[place]
            L += ["    while ext(1):", "        mark(3)", "        if ext(0):", "            mark(2)", f"            {t}"] + ["            " + d for d in D] + \
                 ["        v += 1", "    mark(4)", "    return v"]
        self.kinds_used = [dead]
        return "\n".join(L) + "\n"


# ---------------------------------------------------------------------------
# S2-for: what a for loop leaves in its target


class ForGen:
    def __init__(self, ch):
        self.ch = ch
        self.kinds_used = ["for"]

    def program(self):
        c = self.ch.choose
        L = ["def f(x, y, n, c, v=0):"]
        pre = c(2)
        if pre:
            L.append("    i = 5")
        it = ["range(n)", "(x, y)", "range(n, 2)"][c(3)]
        L.append(f"    for i in {it}:")
        body = c(5)
        L.append("        mark(1)")
        if body == 1:
            L.append("        break")
        elif body == 2:
            L += ["        if ext(0):", "            break"]
        elif body == 3:
            L += ["        if ext(0):", "            continue", "        mark(2)"]
        elif body == 4:
            L += ["        i = i + 10"]
        if c(2):
            L += ["    else:", "        mark(3)"]
        tail = c(3)
        self.position = f"pre{pre}-tail{tail}"
        if tail == 0:
            L.append("    return i")
        elif tail == 1:
            L += ["    mark(4)", "    return v"]
        else:
            L += ["    v = i", "    return v + 1"]
        return "\n".join(L) + "\n"


# ---------------------------------------------------------------------------
# S2-expr: expression forms in every test / value position


class ExprGen:
    LEAVES = ["ext", "x", "c.a", "c[0]", "0", "y"]

    INNER_QUICK = ["leaf", "not", "and", "or"]
    INNER_THOROUGH = ["leaf", "not", "add", "lt", "and", "or", "call"]

    def __init__(self, ch, depth=2, rich_leaves=False, inner_ops=None):
        self.ch = ch
        self.depth = depth
        self.inner_ops = inner_ops or self.INNER_QUICK
        self.site = 0
        self.rich = rich_leaves
        self.forms = []

    def leaf(self, simple=False):
        opts = ["ext"] if simple else (self.LEAVES if self.rich else ["ext", "x", "c.a", "c[0]"])
        o = opts[self.ch.choose(len(opts))]
        if o == "ext":
            s = self.site
            self.site += 1
            return f"ext({s})"
        return o

    OPS = ["leaf", "not", "neg", "add", "sub", "lt", "eq", "chain", "and", "or", "and3", "or3", "call", "andor", "orand",
           "and4", "or4", "and5", "or5", "mixed4",  # chains of four / five operands: leaves only (distinct external calls)
           "ifexp", "ifexp-boolarms"]  # conditional expressions: test first, then exactly one arm

    def expr(self, d, top=False):
        ops = (self.OPS if top else self.inner_ops) if d > 0 else ["leaf"]
        op = ops[self.ch.choose(len(ops))]
        self.forms.append(op)
        if op == "leaf":
            return self.leaf(simple=not top)

        def sub():
            return self.expr(d - 1)

        if op == "not":
            return f"(not {sub()})"
        if op == "neg":
            return f"(-{sub()})"
        if op == "add":
            return f"({sub()} + {sub()})"
        if op == "sub":
            return f"({sub()} - {sub()})"
        if op == "lt":
            return f"({sub()} < {sub()})"
        if op == "eq":
            return f"({sub()} == {sub()})"
        if op == "chain":
            return f"({sub()} < {sub()} <= {sub()})"
        if op == "and":
            return f"({sub()} and {sub()})"
        if op == "or":
            return f"({sub()} or {sub()})"
        if op == "and3":
            return f"({sub()} and {sub()} and {sub()})"
        if op == "or3":
            return f"({sub()} or {sub()} or {sub()})"
        if op in ("and4", "or4", "and5", "or5"):
            w = " and " if op.startswith("and") else " or "
            return "(" + w.join(self.leaf(simple=True) for _ in range(int(op[-1]))) + ")"
        if op == "mixed4":
            a, b, c_, d_ = (self.leaf(simple=True) for _ in range(4))
            return f"({a} and {b} or {c_} and {d_})"
        if op == "ifexp":
            body, test, orelse = sub(), sub(), sub()
            return f"({body} if {test} else {orelse})"
        if op == "ifexp-boolarms":
            l = [self.leaf(simple=True) for _ in range(5)]
            return f"(({l[0]} and {l[1]}) if {l[2]} else ({l[3]} or {l[4]}))"
        if op == "andor":
            return f"({sub()} and ({sub()} or {sub()}))"
        if op == "orand":
            return f"({sub()} or {sub()} and {sub()})"
        if op == "call":
            s = self.site
            self.site += 1
            return f"ext({s}, {sub()})"
        raise AssertionError(op)

    POSITIONS = ["if", "elif", "while", "return", "assign", "augassign", "callarg", "foriter", "ifelse-both", "while-continue"]

    def program(self):
        pos = self.POSITIONS[self.ch.choose(len(self.POSITIONS))]
        self.position = pos
        e = self.expr(self.depth, top=True)
        L = ["def f(x, y, n, c, v=0):", "    v = 0"]
        if pos == "if":
            L += [f"    if {e}:", "        mark(1)", "    mark(2)", "    return v"]
        elif pos == "ifelse-both":
            L += [f"    if {e}:", "        mark(1)", "        v += 1", "    else:", "        mark(2)", "    return v"]
        elif pos == "elif":
            L += ["    if ext(90):", "        mark(1)", f"    elif {e}:", "        mark(2)", "    else:", "        mark(3)", "    return v"]
        elif pos == "while":
            L += [f"    while {e}:", "        mark(1)", "        v += 1", "        if v == 2:", "            break", "    else:", "        mark(2)", "    return v"]
        elif pos == "while-continue":
            L += [f"    while {e}:", "        v += 1", "        if v == 3:", "            break", "        if ext(92):", "            continue",
                  "        mark(1)", "    return v"]
        elif pos == "return":
            L += ["    mark(1)", f"    return {e}"]
        elif pos == "assign":
            L += [f"    v = {e}", "    mark(1)", "    return v"]
        elif pos == "augassign":
            L += ["    v = 5", f"    v += {e}", "    return v"]
        elif pos == "callarg":
            L += [f"    ext(91, {e})", "    return v"]
        elif pos == "foriter":
            L += [f"    for i in ({e}, 7):", "        mark(1)", "        v = i", "    return v"]
        return "\n".join(L) + "\n"


# ---------------------------------------------------------------------------
# symbolic environment


class Unwind(BaseException):
    """unwinding cap hit (reported as a bound, not as a pass)"""


class Box:
    """argument `c`: attribute .a and item [0]"""

    def __init__(self, a, item):
        self.a = a
        self._item = item

    def __getitem__(self, i):
        if i == 0:
            return self._item
        raise IndexError(i)


def term(v):
    if isinstance(v, (SymInt, SymBool)):
        return _lift(v)
    if isinstance(v, bool):
        return z3.IntVal(int(v))
    if isinstance(v, int):
        return z3.IntVal(v)
    return ("py", repr(v))


class ExtError(ValueError):
    """raised by the external-call stub when the schedule says this call raises"""


class Env:
    def __init__(self, E, cap_ext=8, cap_log=40, concrete=None, raising=False):
        self.E = E
        self.raising = raising
        self.log = []
        self.count = {}
        self.cap_ext = cap_ext
        self.cap_log = cap_log
        self.concrete = concrete  # dict "site:k" -> int for engine-free replay
        self.used = []

    def ext(self, site, *args):
        k = self.count.get(site, 0)
        self.count[site] = k + 1
        if sum(self.count.values()) > self.cap_ext or len(self.log) >= self.cap_log:
            raise Unwind()
        self.log.append(("ext", site, tuple(term(a) for a in args)))
        key = f"{site}:{k}"
        self.used.append(key)
        if self.raising:
            # an operand that raises: one boolean per (site, dynamic call), shared by both runs
            if self.concrete is not None:
                r = bool(self.concrete.get("raise:" + key, False))
            else:
                r = self.E.fork(z3.Bool(f"extraise_{site}_{k}"))
            if r:
                raise ExtError(key)
        if self.concrete is not None:
            return self.concrete.get(key, 0)
        return SymInt(self.E, z3.Int(f"ext_{site}_{k}"))

    def mark(self, k):
        if len(self.log) >= self.cap_log:
            raise Unwind()
        self.log.append(("mark", k))


def sym_args(E):
    x, y, n = z3.Int("arg_x"), z3.Int("arg_y"), z3.Int("arg_n")
    ca, ci = z3.Int("arg_c_a"), z3.Int("arg_c_0")
    E.assume(z3.And(n >= 0, n <= 3, x >= -4, x <= 8, y >= -4, y <= 8))
    return (SymInt(E, x), SymInt(E, y), SymInt(E, n), Box(SymInt(E, ca), SymInt(E, ci))), [x, y, n, ca, ci]


def causes(src):
    """Structural causes of the recorded findings present in a program (used only
    to give a behavioural mismatch a specific signature):
      D10  an and/or nested (at any depth) in a non-first operand of an and/or
      D11  an and/or inside arithmetic / comparison / call arguments with an operand to its left
      D12  a for-loop target that is read after the loop (an empty iterable leaves None in it)
      D18  a name bound only in dead code and read in live code (pruning the dead code turns the local into a global)
    """
    tree = ast.parse(src)
    tags = set()

    def has_boolop(n):
        return any(isinstance(m, ast.BoolOp) for m in ast.walk(n))

    for node in ast.walk(tree):
        if isinstance(node, ast.BoolOp):
            for v in node.values[1:]:
                if has_boolop(v):
                    tags.add("D10-boolop-in-later-operand-of-boolop")
        elif isinstance(node, ast.BinOp):
            if has_boolop(node.right):
                tags.add("D11-boolop-operand-after-sibling")
        elif isinstance(node, ast.Compare):
            if any(has_boolop(c) for c in node.comparators):
                tags.add("D11-boolop-operand-after-sibling")
        elif isinstance(node, ast.Call):
            if any(has_boolop(a) for a in node.args[1:]):
                tags.add("D11-boolop-operand-after-sibling")
    fn = tree.body[0]
    # D18: names stored only in dead statements (behind a return / break / continue of the same statement list)
    dead_ids = set()
    for node in ast.walk(fn):
        for field in ("body", "orelse"):
            lst = getattr(node, field, None)
            if isinstance(lst, list):
                for i, st in enumerate(lst):
                    if isinstance(st, (ast.Return, ast.Break, ast.Continue)):
                        for d in lst[i + 1:]:
                            dead_ids |= {id(m) for m in ast.walk(d)}
                        break
    params = {a.arg for a in fn.args.args}
    stored_live = {m.id for m in ast.walk(fn) if isinstance(m, ast.Name) and isinstance(m.ctx, ast.Store) and id(m) not in dead_ids}
    stored_dead = {m.id for m in ast.walk(fn) if isinstance(m, ast.Name) and isinstance(m.ctx, ast.Store) and id(m) in dead_ids}
    loaded_live = {m.id for m in ast.walk(fn) if isinstance(m, ast.Name) and isinstance(m.ctx, ast.Load) and id(m) not in dead_ids}
    if (stored_dead - stored_live - params) & loaded_live:
        tags.add("D18-name-bound-only-in-dead-code")
    for node in ast.walk(fn):
        if isinstance(node, ast.For) and isinstance(node.target, ast.Name):
            tgt = node.target.id
            # read of the target anywhere outside the loop body
            inside = {id(m) for m in ast.walk(node)}
            for m in ast.walk(fn):
                if isinstance(m, ast.Name) and m.id == tgt and isinstance(m.ctx, ast.Load) and id(m) not in inside:
                    tags.add("D12-for-target-read-after-loop")
    return sorted(tags)


def concrete_args(d):
    return (d["arg_x"], d["arg_y"], d["arg_n"], Box(d["arg_c_a"], d["arg_c_0"]))


def run_callable(fn, args):
    """-> (kind, value): kind in ret / exc / unwind"""
    try:
        return ("ret", fn(*args))
    except (Abort, PathTimeout, HarnessError):
        raise
    except Unwind:
        return ("unwind", None)
    except RecursionError:
        return ("exc", "RecursionError")
    except Exception as e:
        return ("exc", type(e).__name__)


def values_differ(E, a, b):
    """None if equal on every model of the path condition, else a reason string;
    returns ('unknown', ...) when the solver cannot decide."""
    ta, tb = term(a), term(b)
    sa, sb = isinstance(ta, tuple), isinstance(tb, tuple)
    if sa or sb:
        if sa and sb:
            return None if (type(a) is type(b) and a == b) else f"{a!r} != {b!r}"
        return f"{a!r} vs {b!r}"
    if E is None:
        return None if ta.as_long() == tb.as_long() else f"{ta} != {tb}"
    if z3.is_int_value(ta) and z3.is_int_value(tb):
        return None if ta.as_long() == tb.as_long() else f"{ta} != {tb}"
    r = E.query_unsat(ta != tb)
    if r == "unsat":
        return None
    if r == "sat":
        return f"{ta} != {tb} is satisfiable under the path condition"
    return "unknown"


def compare_runs(E, o1, log1, o2, log2, ctx=None):
    """list of mismatch descriptions between two runs on the same path"""
    out = []
    if ctx is not None:
        ctx.extra["equivalence_queries"] += 1
    if o1[0] != o2[0]:
        out.append(("outcome-kind", f"{o1[0]}:{_short(o1[1])} vs {o2[0]}:{_short(o2[1])}"))
    elif o1[0] == "exc":
        if o1[1] != o2[1]:
            out.append(("exception-type", f"{o1[1]} vs {o2[1]}"))
    elif o1[0] == "ret":
        d = values_differ(E, o1[1], o2[1])
        if d == "unknown":
            out.append(("inconclusive", "solver unknown on result"))
        elif d:
            out.append(("result", d))
    if len(log1) != len(log2):
        out.append(("call-log-length", f"{_fmt(log1)} vs {_fmt(log2)}"))
    else:
        for a, b in zip(log1, log2):
            if a[0] != b[0] or a[1] != b[1]:
                out.append(("call-order", f"{_fmt(log1)} vs {_fmt(log2)}"))
                break
            if a[0] == "ext":
                if len(a[2]) != len(b[2]):
                    out.append(("call-args", f"{a} vs {b}"))
                    break
                for ta, tb in zip(a[2], b[2]):
                    if isinstance(ta, tuple) or isinstance(tb, tuple):
                        if ta != tb:
                            out.append(("call-args", f"{ta} vs {tb}"))
                    elif E is None or (z3.is_int_value(ta) and z3.is_int_value(tb)):
                        if ta.as_long() != tb.as_long():
                            out.append(("call-args", f"{ta} vs {tb}"))
                    else:
                        r = E.query_unsat(ta != tb)
                        if r == "sat":
                            out.append(("call-args", f"{ta} vs {tb}"))
                        elif r != "unsat":
                            out.append(("inconclusive", "solver unknown on call argument"))
    return out


def _short(v):
    return repr(v)[:40]


def _fmt(log):
    return "[" + ", ".join(f"{e[0]}{e[1]}" for e in log[:12]) + ("..." if len(log) > 12 else "") + "]"


def model_inputs(E, argvars, envs):
    """concretise the current path: argument values and external-call values"""
    m = E.model()
    if m is None:
        return None
    d = {str(v): m.eval(v, model_completion=True).as_long() for v in argvars}
    ext = {}
    for env in envs:
        for key in env.used:
            site, k = key.split(":")
            ext[key] = m.eval(z3.Int(f"ext_{site}_{k}"), model_completion=True).as_long()
            if env.raising:
                ext["raise:" + key] = bool(z3.is_true(m.eval(z3.Bool(f"extraise_{site}_{k}"), model_completion=True)))
    return {"args": d, "ext": ext}


# ---------------------------------------------------------------------------
# the CFG block interpreter (C08)


class BlockProgram:
    """pre-compiled blocks of a graph of PythonASTBlocks"""

    def __init__(self, graph, entry="0"):
        self.entry = entry
        self.blocks = {}
        for name, b in graph.items():
            tree = list(b.tree if hasattr(b, "tree") else b.instructions)
            targets = tuple(b._jump_targets if hasattr(b, "_jump_targets") else b.jump_targets)
            test = None
            if len(targets) == 2:
                if not tree:
                    raise ValueError(f"block {name} has two successors and no test")
                last = tree.pop()
                e = last.value if isinstance(last, ast.Expr) else last
                if not isinstance(e, ast.expr):
                    raise ValueError(f"block {name}: last node is not an expression")
                test = compile(ast.fix_missing_locations(ast.Expression(e)), f"<test {name}>", "eval")
            stmts = []
            for st in tree:
                if isinstance(st, ast.Return):
                    if st.value is None:
                        stmts.append(("return", None))
                    else:
                        stmts.append(("return", compile(ast.fix_missing_locations(ast.Expression(st.value)), f"<ret {name}>", "eval")))
                    break
                node = ast.Expr(st) if isinstance(st, ast.expr) else st
                if isinstance(node, (ast.Pass, ast.Break, ast.Continue)):
                    continue
                stmts.append(("exec", compile(ast.fix_missing_locations(ast.Module([node], [])), f"<blk {name}>", "exec")))
            self.blocks[name] = (stmts, test, targets)

    def run(self, x, y, n, c, env, max_steps=400):
        ns = {"x": x, "y": y, "n": n, "c": c, "v": 0, "ext": env.ext, "mark": env.mark}
        name = self.entry
        for _ in range(max_steps):
            stmts, test, targets = self.blocks[name]
            for kind, code in stmts:
                if kind == "return":
                    return None if code is None else eval(code, ns)
                exec(code, ns)
            if test is not None:
                name = targets[0] if eval(test, ns) else targets[1]
            elif len(targets) == 1:
                name = targets[0]
            else:
                raise RuntimeError(f"block {name} ends without return and without successor")
        raise Unwind()


def make_function(src_or_def, name, env):
    """exec a function definition with ext/mark bound to env"""
    ns = {"ext": env.ext, "mark": env.mark}
    if isinstance(src_or_def, str):
        code = compile(src_or_def, "<s2>", "exec")
    else:
        code = src_or_def
    exec(code, ns)
    return ns[name]


# ---------------------------------------------------------------------------
# per-program cache: the pipeline is deterministic, paths re-execute the harness


class Program:
    CACHE: dict = {}

    def __init__(self, src):
        self.src = src
        self.holder = {"env": None}
        self.orig_fn = None
        self.orig_error = None
        try:
            self.orig_fn = self._fn(compile(src, "<orig>", "exec"), "f")
        except Exception as e:  # the generator produced something Python rejects
            self.orig_error = e
        self._pipeline = None
        self._cfg = None

    @classmethod
    def get(cls, src):
        p = cls.CACHE.get(src)
        if p is None:
            if len(cls.CACHE) > 64:
                cls.CACHE.clear()
            p = cls.CACHE[src] = Program(src)
        return p

    def _fn(self, code, name):
        h = self.holder
        ns = {"ext": lambda *a: h["env"].ext(*a), "mark": lambda k: h["env"].mark(k)}
        exec(code, ns)
        return ns[name]

    # -- source -> CFG (C08) ------------------------------------------------
    def cfg(self, prune=True):
        """('ok', BlockProgram, astcfg, funcdef) | ('refused', exc) | ('error', exc)"""
        key = ("cfg", prune)
        if getattr(self, "_cfgs", None) is None:
            self._cfgs = {}
        if key not in self._cfgs:
            from numba_scfg.core.datastructures.ast_transforms import AST2SCFGTransformer

            tree = ast.parse(self.src).body
            try:
                t = AST2SCFGTransformer(tree, prune=prune)
                astcfg = t.transform_to_ASTCFG()
                bp = BlockProgram(astcfg)
                self._cfgs[key] = ("ok", bp, astcfg, tree[0])
            except NotImplementedError as e:
                self._cfgs[key] = ("refused", e)
            except Exception as e:
                self._cfgs[key] = ("error", e)
        return self._cfgs[key]

    # -- the other input forms and repeated conversion -----------------------
    def as_callable(self):
        """the program as a function object whose source inspect.getsource() can find"""
        import linecache

        fname = f"<s2prog-{abs(hash(self.src)):x}>"
        linecache.cache[fname] = (len(self.src), None, self.src.splitlines(True), fname)
        ns = {"ext": lambda *a: None, "mark": lambda k: None}
        exec(compile(self.src, fname, "exec"), ns)
        return ns["f"]

    @staticmethod
    def cfg_fingerprint(astcfg):
        out = []
        for name, b in astcfg.items():
            out.append((str(name), tuple(ast.dump(i) for i in b.instructions), tuple(str(t) for t in b.jump_targets)))
        return tuple(out)

    def cfg_forms(self):
        """The graph of the same function obtained through the other input forms of the public API (source string,
        function object), each converted twice in this process.  Only conversions whose graph DIFFERS from the primary
        one (AST list, pruned) are returned - an identical graph has an identical meaning:
        [(label, ('ok', BlockProgram) | ('refused', exc) | ('error', exc))]"""
        if getattr(self, "_forms", None) is None:
            from numba_scfg.core.datastructures.ast_transforms import AST2SCFGTransformer

            prim = self.cfg(True)
            base = self.cfg_fingerprint(prim[2]) if prim[0] == "ok" else prim[0]
            forms = []
            try:
                fn = self.as_callable()
            except Exception:
                fn = None
            for label, arg in (("str#1", self.src), ("str#2", self.src), ("callable#1", fn), ("callable#2", fn)):
                if arg is None:
                    continue
                try:
                    astcfg = AST2SCFGTransformer(arg, prune=True).transform_to_ASTCFG()
                    if self.cfg_fingerprint(astcfg) != base:
                        forms.append((label, ("ok", BlockProgram(astcfg))))
                except NotImplementedError as e:
                    if base != "refused":
                        forms.append((label, ("refused", e)))
                except Exception as e:
                    forms.append((label, ("error", e)))
            self._forms = forms
        return self._forms

    # -- full round trip (C07 / C10) -----------------------------------------
    def pipeline(self):
        """('ok', fn, funcdef_ast, scfg, text) | ('refused', exc) | ('error', stage, exc)"""
        if self._pipeline is None:
            from numba_scfg.core.datastructures.ast_transforms import AST2SCFG, SCFG2AST

            stage = "AST2SCFG"
            try:
                scfg = AST2SCFG(self.src)
                stage = "restructure"
                scfg.restructure()
                stage = "SCFG2AST"
                out = SCFG2AST(self.src, scfg)
                stage = "unparse"
                text = ast.unparse(out)
                stage = "compile"
                code = compile(text, "<regen>", "exec")
                fn = self._fn(code, "transformed_f")
                self._pipeline = ("ok", fn, out, scfg, text)
            except NotImplementedError as e:
                self._pipeline = ("refused", stage, e)
            except Exception as e:
                self._pipeline = ("error", stage, e)
        return self._pipeline

    def pipeline_forms(self):
        """The round trip of the same function once more through the source-string form (a second conversion in this
        process) and twice through the function-object form.  Only results whose regenerated text DIFFERS from the primary
        round trip are returned: [(label, ('ok', fn, text) | ('refused',) | ('error', stage, exc))]"""
        if getattr(self, "_pforms", None) is None:
            from numba_scfg.core.datastructures.ast_transforms import AST2SCFG, SCFG2AST

            prim = self.pipeline()
            base = prim[4] if prim[0] == "ok" else prim[0]
            forms = []
            try:
                fobj = self.as_callable()
            except Exception:
                fobj = None
            for label, arg in (("str#2", self.src), ("callable#1", fobj), ("callable#2", fobj)):
                if arg is None:
                    continue
                stage = "AST2SCFG"
                try:
                    scfg = AST2SCFG(arg)
                    stage = "restructure"
                    scfg.restructure()
                    stage = "SCFG2AST"
                    out = SCFG2AST(arg, scfg)
                    stage = "unparse"
                    text = ast.unparse(out)
                    if text == base:
                        continue
                    stage = "compile"
                    fn = self._fn(compile(text, "<regen>", "exec"), "transformed_f")
                    forms.append((label, ("ok", fn, text)))
                except NotImplementedError:
                    if base != "refused":
                        forms.append((label, ("refused",)))
                except Exception as e:
                    forms.append((label, ("error", stage, e)))
            self._pforms = forms
        return self._pforms

    def run(self, fn, args, env):
        self.holder["env"] = env
        try:
            return run_callable(fn, args)
        finally:
            self.holder["env"] = None

    def run_blocks(self, bp, args, env):
        return run_callable(lambda *a: bp.run(*a, env), args)

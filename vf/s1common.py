"""Shared harness plumbing for the properties decided over S1 (closed CFGs)."""
from __future__ import annotations

import os
import traceback

from vf.runner import Job
from vf.spaces import s1_space, realise_s1, brute_count_s1

BLOCK_TYPES = {
    "BasicBlock", "PythonBytecodeBlock", "PythonASTBlock", "SyntheticBlock", "SyntheticExit",
    "SyntheticReturn", "SyntheticTail", "SyntheticFill", "SyntheticAssignment", "SyntheticBranch",
    "SyntheticHead", "SyntheticExitingLatch", "SyntheticExitBranch", "RegionBlock", "NoneType",
}
REGION_KINDS = {"head", "tail", "branch", "loop", "meta"}
DISCR = BLOCK_TYPES | REGION_KINDS

# measured once with brute_count_s1 (no solver); N <= 4 is recomputed on every run
KNOWN_COUNTS = {(3, 0): 20, (4, 0): 954, (5, 0): 88680, (3, None): 60, (4, None): 3816, (5, None): 443400}


def sig_of(err, prefix=""):
    parts = [str(err[0])]
    if str(err[0]).endswith("exception") and len(err) > 1:
        return prefix + str(err[0]) + ":" + str(err[1])
    for x in err[1:3]:
        if isinstance(x, str) and x in DISCR:
            parts.append(x)
        else:
            break
    return prefix + ":".join(parts)


def exc_signature(e: BaseException) -> str:
    """Exception type + innermost numba_scfg frame (file, function, source line)."""
    tb = traceback.extract_tb(e.__traceback__)
    frame = None
    for fr in tb:
        if "numba_scfg" in fr.filename and "/tests/" not in fr.filename:
            frame = fr
    if frame is None:
        return f"exc:{type(e).__name__}"
    return f"exc:{type(e).__name__}@{os.path.basename(frame.filename)}:{frame.name}:{(frame.line or '').strip()[:80]}"


def expected(N, entry):
    if N <= 4:
        return brute_count_s1(N, entry)
    return KNOWN_COUNTS.get((N, entry))


# input blocks named inside the name generator's own namespace (indices with different numbers of digits included:
# "10" < "9" as strings)
NAME_SCHEMES = [
    ["synth_asign_block_0", "synth_exit_latch_block_0", "synth_return_block_0", "loop_region_0", "synth_head_block_0"],
    ["synth_asign_block_9", "synth_asign_block_10", "synth_exit_latch_block_10", "synth_asign_block_11", "loop_region_10"],
    ["head_region_9", "head_region_10", "synth_tail_block_10", "synth_exit_block_10", "branch_region_10"],
    ["synth_asign_block_2", "synth_asign_block_10", "synth_head_block_9", "synth_head_block_10", "tail_region_10"],
]


def namespace_job(tier, harness, N=4):
    import z3
    from vf.runner import Job

    def space():
        f, cubes, aux = s1_space(N, entry=0 if tier == "quick" else None)
        sc = z3.Int("scheme")
        aux["scheme"] = sc
        return z3.And(f, sc >= 0, sc < len(NAME_SCHEMES)), [sc] + cubes, aux

    def h(E, ctx, aux):
        d = realise_s1(E, aux)
        sc = E.realize(aux["scheme"])
        m = {f"b{i}": NAME_SCHEMES[sc][i] for i in range(N)}
        desc = {"names": [m[n] for n in d["names"]], "succ": [[m[t] for t in s] for s in d["succ"]]}
        ctx.current = desc
        ctx.feature(f"name-scheme:{sc}")
        harness(E, ctx, aux, desc)

    return Job("S1-N4-names-in-generator-namespace", space, h,
               bounds={"space": "S1", "blocks": N, "name_schemes": NAME_SCHEMES, "entry": "b0" if tier == "quick" else "any"}, budget_s=900)


def s1_jobs(tier, harness, quick_n5_max_edges=None, with_routes=True, n5_routes=True):
    """The standard S1 job list.  harness(E, ctx, aux, desc)."""
    mk = s1_job_maker(harness)
    js = _s1_jobs(tier, mk, quick_n5_max_edges, with_routes, n5_routes)
    js.insert(2, namespace_job(tier, harness))
    return js


def s1_job_maker(harness):
    def mk(name, N, entry=None, max_edges=None, skeleton=None, budget=900.0, required=True, exp=None, dag=False, routes=None, prefix="b",
           features=None, counters=None):
        def space():
            return s1_space(N, entry=entry, max_edges=max_edges, skeleton=skeleton, dag=dag, features=features)

        def h(E, ctx, aux):
            desc = realise_s1(E, aux, prefix=prefix)
            if counters is not None:
                for c in counters:
                    d = dict(desc, counter_start=c)
                    ctx.current = d
                    harness(E, ctx, aux, d)
                return
            if routes is None:
                ctx.current = desc
                harness(E, ctx, aux, desc)
                return
            for r in routes:
                if r.startswith("final:"):
                    # the same graph under another naming (e.g. names that sort after every generated name), last stage only
                    px = r.split(":")[1]
                    m = {n: px + n[len(prefix):] for n in desc["names"]}
                    d = {"names": [m[n] for n in desc["names"]], "succ": [[m[t] for t in s_] for s_ in desc["succ"]], "route": "final"}
                else:
                    d = dict(desc, route=r)
                ctx.current = d
                harness(E, ctx, aux, d)

        return Job(
            name=name,
            space=space,
            harness=h,
            bounds={"space": "S1 closed CFGs", "blocks": N, "entry": "any" if entry is None else f"b{entry}",
                    "max_edges": max_edges, "skeleton": skeleton, "max_successors": 2, "acyclic_forward_edges_only": dag,
                    "names": f"{prefix}0..{prefix}{N-1}", "routes": routes or ["direct"], "required_shape_features": features,
                    "name_generator_counters_start_at": counters or [0]},
            budget_s=budget,
            expect_paths=exp,
            required=required,
        )

    return mk


def _s1_jobs(tier, mk, quick_n5_max_edges, with_routes, n5_routes=True):
    jobs = [
        mk("S1-N3-all-entries", 3, None, exp=expected(3, None)),
        mk("S1-N4-all-entries", 4, None, exp=expected(4, None)),
    ]
    jobs.append(mk("F6dag-N6-entry-b0-forward-edges", 6, 0, dag=True, budget=900.0))
    # names that sort AFTER every generated name (the library sorts block names in several places)
    jobs.append(mk("S1-N4-all-entries-z-names", 4, None, exp=expected(4, None), prefix="z"))
    # numeric strings: what the source front end and the repository's own YAML fixtures use as block names
    jobs.append(mk("S1-N4-all-entries-numeric-names", 4, None, exp=expected(4, None), prefix=""))
    # histories: the graph is written to a dictionary / YAML and read back between two stages
    RELOADS = ["reload@1", "reload@2", "yreload@2", "alias@2", "reread"]
    BOTH = ["direct", "reload@2", "alias@2", "final:z"] if (with_routes and n5_routes) else None
    if os.environ.get("VERIF_PROBE"):
        jobs.append(mk("probe-counters", 5, 0, counters=[int(x) for x in os.environ["VERIF_PROBE"].split(",")]))
    if with_routes:
        jobs.append(mk("S1-N4-all-entries-reloaded-between-stages", 4, None, exp=expected(4, None), routes=RELOADS))
    if tier != "quick":
        jobs.append(mk("F7dag-N7-entry-b0-forward-edges", 7, 0, dag=True, budget=1200.0, required=False))
    if tier == "quick":
        if quick_n5_max_edges is None:
            jobs.append(mk("S1-N5-entry-b0" + ("-direct-reloaded-aliased-znamed" if BOTH else ""), 5, 0, exp=expected(5, 0), routes=BOTH))
        else:
            jobs.append(mk(f"S1-N5-entry-b0-le{quick_n5_max_edges}-edges", 5, 0, max_edges=quick_n5_max_edges))
    else:
        jobs.append(mk("S1-N5-all-entries" + ("-direct-reloaded-aliased-znamed" if BOTH else ""), 5, None, exp=expected(5, None), budget=3000.0, routes=BOTH))
        jobs.append(mk("S1-N5-entry-b0-z-names", 5, 0, exp=expected(5, 0), prefix="z"))
        jobs.append(mk("F6-N6-entry-b0-le7-edges", 6, 0, max_edges=7, budget=600.0, required=False))
        # shape-directed families (spaces.loop_feature): the solver supplies the graphs with the rare shape
        jobs.append(mk("F6-two-headers-two-exits-le9-edges", 6, 0, max_edges=9, budget=400.0, required=False,
                       features={"headers": 2, "entries": 2, "exit_targets": 2}))
        jobs.append(mk("F6-loop-exits-into-another-loop-le9-edges", 6, 0, max_edges=9, budget=400.0, required=False,
                       features={"exit_targets": 2, "exit_is_cyclic": True, "min_size": 2}))
        jobs.append(mk("F7-three-exit-loop-le10-edges", 7, 0, max_edges=10, budget=400.0, required=False,
                       features={"exit_targets": 3, "exiting": 2}))
        jobs.append(mk("F6-N6-entry-b0-all-graphs-budgeted", 6, 0, budget=900.0, required=False))
        for nm, sk in (("id", [0, 1, 2, 3, 4, 5, 6]), ("rev", [0, 6, 5, 4, 3, 2, 1]), ("ilv", [0, 2, 4, 6, 1, 3, 5])):
            jobs.append(mk(f"F7-N7-chain-{nm}-le9-edges", 7, 0, max_edges=9, skeleton=sk, budget=300.0, required=False))
    return jobs


def front_end_jobs(tier, harness):
    """Graphs derived from source (S2 programs through AST2SCFG) and from bytecode
    (the same programs compiled): larger than the S1 bound, shapes of real code."""
    from vf import s2
    from vf.oracles.hier import orig_map, is_closed

    def mk(name, factory, depth, kind, bounds, budget=900.0, required=True):
        def h(E, ctx, aux):
            ch = s2.Chooser(E, getattr(ctx, "cube", ()))
            src = factory(ch).program()
            desc = {"kind": kind, "src": src}
            ctx.current = desc
            if kind == "bytecode":
                ns = {}
                exec(compile(src, "<front>", "exec"), ns)
                if ns["f"].__code__.co_exceptiontable:
                    ctx.feature("skipped:exception-table")
                    return
            try:
                orig = orig_map(desc)
            except NotImplementedError:
                ctx.feature("front-end-refused")
                return
            except Exception:
                ctx.feature("front-end-raised")  # C07 / C09 territory
                return
            if not is_closed(orig):
                ctx.feature("front-end-graph-not-closed")  # outside the domain (DESIGN section 9)
                if getattr(harness, "wants_unclosed", False):
                    harness(E, ctx, aux, dict(desc, unclosed=True))
                return
            ctx.feature(f"{kind}-graph-blocks:{min(len(orig) // 5 * 5, 30)}+")
            harness(E, ctx, aux, desc)

        return Job(name=name, space=lambda: (None, [], None), harness=h, bounds=bounds, budget_s=budget, required=required,
                   cubes_fn=lambda: s2.enum_prefixes(lambda ch: factory(ch).program(), depth), path_timeout_s=20.0)

    js = []
    if tier == "quick":
        js.append(mk("source-derived-S2-ctl-c2-d2-t1", lambda ch: s2.CtlGen(ch, 2, 2, 1), 3, "source",
                     {"space": "graphs of AST2SCFG over S2-ctl", "compounds<=": 2, "depth<=": 2, "terminators<=": 1}))
        js.append(mk("source-derived-S2-ctl-c3-core-kinds", lambda ch: s2.CtlGen(ch, 3, 2, 1, kinds=["if", "ifelse", "while"]), 3, "source",
                     {"space": "graphs of AST2SCFG over S2-ctl", "compounds<=": 3, "kinds": ["if", "ifelse", "while"], "depth<=": 2, "terminators<=": 1}))
        js.append(mk("bytecode-derived-S2-ctl-c1", lambda ch: s2.CtlGen(ch, 1, 2, 2), 2, "bytecode",
                     {"space": "graphs of ByteFlow over compiled S2-ctl", "compounds<=": 1}))
        js.append(mk("source-derived-S2-ctl-c3-core-kinds-bare", lambda ch: s2.CtlGen(ch, 3, 2, 1, kinds=["if", "ifelse", "while"], trail="never"), 4, "source",
                     {"space": "graphs of AST2SCFG over S2-ctl", "compounds<=": 3, "kinds": ["if", "ifelse", "while"], "depth<=": 2, "terminators<=": 1, "marker after a compound": "never"}))
        js.append(mk("source-derived-S2-ctl-c3-t2-if-while-bare", lambda ch: s2.CtlGen(ch, 3, 2, 2, kinds=["if", "while"], trail="never"), 4, "source",
                     {"space": "graphs of AST2SCFG over S2-ctl", "compounds<=": 3, "kinds": ["if", "while"], "depth<=": 2, "terminators<=": 2, "marker after a compound": "never"}))
        js.append(mk("source-derived-S2-loop-in-branch-arm", lambda ch: s2.ArmLoopGen(ch), 3, "source",
                     {"space": "graphs of AST2SCFG over S2-armloop (a loop with guarded terminators that lives in / ends one arm of a branch)"}))
        js.append(mk("bytecode-derived-S2-loop-in-branch-arm", lambda ch: s2.ArmLoopGen(ch), 3, "bytecode",
                     {"space": "graphs of ByteFlow over compiled S2-armloop"}))
        js.append(mk("source-derived-S2-dead-compound-statements", lambda ch: s2.DeadCodeGen(ch), 1, "source",
                     {"space": "graphs of AST2SCFG over S2-deadcode (loops / ifs behind a terminator)"}))
        js.append(mk("source-derived-S2-loop-in-nested-branch-arm", lambda ch: s2.ArmLoopGen(ch, nested=True), 3, "source",
                     {"space": "graphs of AST2SCFG over S2-armloop nested in the arm of an enclosing if"}))
        js.append(mk("source-derived-S2-multi-exit-loop-then-branching-code", lambda ch: s2.SeqLoopGen(ch), 3, "source",
                     {"space": "graphs of AST2SCFG over S2-seqloop (a loop left in up to four ways, followed by code that branches again)"}))
        js.append(mk("bytecode-derived-S2-multi-exit-loop-then-branching-code", lambda ch: s2.SeqLoopGen(ch), 3, "bytecode",
                     {"space": "graphs of ByteFlow over compiled S2-seqloop"}))
    else:
        js.append(mk("source-derived-S2-ctl-c2-d3-t2", lambda ch: s2.CtlGen(ch, 2, 3, 2), 3, "source",
                     {"space": "graphs of AST2SCFG over S2-ctl", "compounds<=": 2, "depth<=": 3, "terminators<=": 2}, budget=1800))
        js.append(mk("source-derived-S2-ctl-c3-d3-t2", lambda ch: s2.CtlGen(ch, 3, 3, 2), 4, "source",
                     {"space": "graphs of AST2SCFG over S2-ctl", "compounds<=": 3, "depth<=": 3, "terminators<=": 2}, budget=1200, required=False))
        js.append(mk("source-derived-S2-ctl-c3-choose-trailing-markers", lambda ch: s2.CtlGen(ch, 3, 2, 1, kinds=["if", "ifelse", "while", "for"], trail="choose"), 4, "source",
                     {"space": "graphs of AST2SCFG over S2-ctl", "compounds<=": 3, "marker after a compound": "optional"}, budget=1200, required=False))
        js.append(mk("source-derived-S2-loop-in-branch-arm", lambda ch: s2.ArmLoopGen(ch), 3, "source",
                     {"space": "graphs of AST2SCFG over S2-armloop"}))
        js.append(mk("bytecode-derived-S2-loop-in-branch-arm", lambda ch: s2.ArmLoopGen(ch), 3, "bytecode",
                     {"space": "graphs of ByteFlow over compiled S2-armloop"}))
        js.append(mk("source-derived-S2-dead-compound-statements", lambda ch: s2.DeadCodeGen(ch), 1, "source",
                     {"space": "graphs of AST2SCFG over S2-deadcode (loops / ifs behind a terminator)"}))
        js.append(mk("source-derived-S2-loop-in-nested-branch-arm", lambda ch: s2.ArmLoopGen(ch, nested=True), 3, "source",
                     {"space": "graphs of AST2SCFG over S2-armloop nested in the arm of an enclosing if"}))
        js.append(mk("source-derived-S2-multi-exit-loop-then-branching-code", lambda ch: s2.SeqLoopGen(ch), 3, "source",
                     {"space": "graphs of AST2SCFG over S2-seqloop (a loop left in up to four ways, followed by code that branches again)"}))
        js.append(mk("bytecode-derived-S2-multi-exit-loop-then-branching-code", lambda ch: s2.SeqLoopGen(ch), 3, "bytecode",
                     {"space": "graphs of ByteFlow over compiled S2-seqloop"}))
        js.append(mk("source-derived-S2-expr-d2", lambda ch: s2.ExprGen(ch, 2), 3, "source",
                     {"space": "graphs of AST2SCFG over S2-expr", "depth<=": 2}, budget=1200))
        js.append(mk("bytecode-derived-S2-ctl-c2-d2-t1", lambda ch: s2.CtlGen(ch, 2, 2, 1), 3, "bytecode",
                     {"space": "graphs of ByteFlow over compiled S2-ctl", "compounds<=": 2}, budget=1800))
    return js


def graph_features(desc):
    """Shape features of the input (vacuity guard / feature counters)."""
    from vf.oracles.hier import input_sccs, orig_map

    orig = orig_map(desc)
    f = []
    sccs = input_sccs(orig)
    if sccs:
        f.append("has-loop")
    for comp in sccs:
        heads = {t for n, s in orig.items() if n not in comp for t in s if t in comp}
        exits = {t for n in comp for t in orig[n] if t not in comp}
        latches = {n for n in comp for t in orig[n] if t in heads}
        if len(heads) > 1:
            f.append("multi-header-loop")
        if len(exits) > 1:
            f.append("multi-exit-loop")
        if len(latches) > 1:
            f.append("multi-latch-loop")
    if sum(1 for s in orig.values() if not s) > 1:
        f.append("multi-exit-graph")
    if any(len(s) == 2 for s in orig.values()):
        f.append("has-branch")
    return f

"""SYMEX - a small path-wise symbolic execution engine over z3 (DESIGN 2.1).

The code under test runs natively in CPython.  Symbolic integers / booleans are
proxy objects around z3 terms; a truth test is a *fork*, a use as index / hash /
int() is a *realisation* (the solver supplies a model value v, the path goes on
under x == v and the sibling x != v is queued).  Exploration is depth first by
re-execution with the recorded decision prefix replayed; solver frames mirror
the decision stack.  The space is exhausted when the stack empties, i.e. when
for every decision on every explored path the solver answered `unsat` for the
unexplored side.

Nothing here knows about numba_scfg.
"""
from __future__ import annotations

import signal
import time
import z3


class Abort(BaseException):
    """Path condition became infeasible (vacuous path)."""


class PathTimeout(BaseException):
    """Wall-clock budget of one path ran out (BaseException: must not be
    swallowed by `except Exception` in the code under test)."""


class HarnessError(BaseException):
    """The harness / code under test was not deterministic along a replayed
    prefix, or the solver answered unknown.  Never a violation."""


class Engine:
    def __init__(self, path_timeout_s: float = 10.0):
        self.s = z3.Solver()
        self.events: list = []  # [kind, expr, choice, closed, value]
        self.pos = 0
        self.nchecks = 0
        self.nsat = 0
        self.nunsat = 0
        self.nunknown = 0
        self.tsolve = 0.0
        self.paths = 0
        self.vacuous = 0
        self.decisions = 0
        self.timed_out = 0
        self.path_timeout_s = path_timeout_s
        self.unknown_open = 0  # decisions left open because of `unknown`

    # -- solver ---------------------------------------------------------
    def _check(self, *a):
        t = time.perf_counter()
        r = self.s.check(*a)
        self.tsolve += time.perf_counter() - t
        self.nchecks += 1
        if r == z3.sat:
            self.nsat += 1
        elif r == z3.unsat:
            self.nunsat += 1
        else:
            self.nunknown += 1
        return r

    def query_unsat(self, e) -> str:
        """Is `pc and e` unsatisfiable?  returns 'unsat' | 'sat' | 'unknown'.
        Does not change the path condition."""
        self.s.push()
        try:
            self.s.add(e)
            r = self._check()
        finally:
            self.s.pop()
        return str(r)

    def model_under(self, e):
        """A model of `pc and e` (None if unsat/unknown)."""
        self.s.push()
        try:
            self.s.add(e)
            if self._check() == z3.sat:
                return self.s.model()
            return None
        finally:
            self.s.pop()

    def model(self):
        if self._check() != z3.sat:
            return None
        return self.s.model()

    # -- decisions ------------------------------------------------------
    def _replay(self, kind, e):
        ev = self.events[self.pos]
        if ev[0] != kind or (e is not None and ev[5] != e.get_id()):
            raise HarnessError(
                f"non-deterministic replay at decision {self.pos}: "
                f"recorded {ev[0]} {ev[1]}, now {kind} {e}"
            )
        self.pos += 1
        return ev

    def assume(self, e):
        if isinstance(e, bool):
            if e:
                return
            raise Abort()
        if self.pos < len(self.events):
            self._replay("assume", e)
            return
        self.s.push()
        self.s.add(e)
        self.events.append(["assume", e, True, True, None, e.get_id()])
        self.pos += 1
        r = self._check()
        if r == z3.unknown:
            self.unknown_open += 1
        if r != z3.sat:
            raise Abort()

    def fork(self, e) -> bool:
        if self.pos < len(self.events):
            return self._replay("fork", e)[2]
        self.decisions += 1
        self.s.push()
        self.s.add(e)
        r = self._check()
        if r == z3.sat:
            self.events.append(["fork", e, True, False, None, e.get_id()])
            self.pos += 1
            return True
        if r == z3.unknown:
            self.unknown_open += 1
        self.s.pop()
        self.s.push()
        self.s.add(z3.Not(e))
        # the path condition is satisfiable, hence so is pc and not e
        self.events.append(["fork", e, False, True, None, e.get_id()])
        self.pos += 1
        return False

    def realize(self, x) -> int:
        """Concrete value for integer term x (model-driven enumeration)."""
        if z3.is_int_value(x):
            return x.as_long()
        while self.pos < len(self.events):
            ev = self._replay("real", x)
            if ev[2]:
                return ev[4]
            # the `x != v` side was taken: realise again under it
        self.decisions += 1
        r = self._check()
        if r != z3.sat:
            if r == z3.unknown:
                self.unknown_open += 1
            raise Abort()
        v = self.s.model().eval(x, model_completion=True).as_long()
        e = x == v
        self.s.push()
        self.s.add(e)
        self.events.append(["real", e, True, False, v, x.get_id()])
        self.pos += 1
        return v

    def _backtrack(self) -> bool:
        while self.events:
            ev = self.events[-1]
            self.s.pop()
            if ev[3]:
                self.events.pop()
                continue
            self.s.push()
            self.s.add(z3.Not(ev[1]))
            ev[2] = False
            ev[3] = True
            r = self._check()
            if r == z3.sat:
                return True
            if r == z3.unknown:
                self.unknown_open += 1
            self.s.pop()
            self.events.pop()
        return False

    # -- exploration ----------------------------------------------------
    def _run_one(self, harness, budget):
        def _alarm(signum, frame):
            raise PathTimeout()

        old = signal.signal(signal.SIGALRM, _alarm)
        signal.setitimer(signal.ITIMER_REAL, budget)
        try:
            harness(self)
        finally:
            signal.setitimer(signal.ITIMER_REAL, 0)
            signal.signal(signal.SIGALRM, old)

    def explore(self, harness, deadline: float | None = None, on_timeout=None) -> bool:
        """Run `harness(engine)` once per path.  Returns True iff the space was
        exhausted (decision stack emptied)."""
        while True:
            self.pos = 0
            try:
                try:
                    self._run_one(harness, self.path_timeout_s)
                except PathTimeout:
                    # re-run once with 10x the budget (DESIGN 2.1)
                    self.pos = 0
                    n = len(self.events)
                    try:
                        self._run_one(harness, 10 * self.path_timeout_s)
                    except PathTimeout:
                        self.timed_out += 1
                        del self.events[n:]  # keep the solver stack aligned
                        while self.s.num_scopes() > len(self.events):
                            self.s.pop()
                        if on_timeout is not None:
                            on_timeout(self)
                self.paths += 1
            except Abort:
                self.vacuous += 1
                while self.s.num_scopes() > len(self.events):
                    self.s.pop()
            if not self._backtrack():
                return True
            if deadline is not None and time.time() > deadline:
                return False

    def stats(self) -> dict:
        return {
            "paths": self.paths,
            "vacuous": self.vacuous,
            "decisions": self.decisions,
            "timed_out": self.timed_out,
            "queries": self.nchecks,
            "sat": self.nsat,
            "unsat": self.nunsat,
            "unknown": self.nunknown,
            "solver_time_s": round(self.tsolve, 3),
            "unknown_open": self.unknown_open,
        }


# ---------------------------------------------------------------------------
# symbolic proxies


def _lift(v):
    if isinstance(v, SymInt):
        return v.e
    if isinstance(v, SymBool):
        return z3.If(v.e, z3.IntVal(1), z3.IntVal(0))
    if isinstance(v, bool):
        return z3.IntVal(int(v))
    if isinstance(v, int):
        return z3.IntVal(v)
    raise TypeError(type(v))


class SymBool:
    __slots__ = ("E", "e")

    def __init__(self, E, e):
        self.E = E
        self.e = e

    def __bool__(self):
        if z3.is_true(self.e):
            return True
        if z3.is_false(self.e):
            return False
        return self.E.fork(self.e)

    def __eq__(self, o):
        try:
            return SymInt(self.E, _lift(self)).__eq__(o)
        except TypeError:
            return NotImplemented

    def __ne__(self, o):
        return SymInt(self.E, _lift(self)).__ne__(o)

    def __hash__(self):
        return hash(bool(self))

    def __add__(self, o):
        return SymInt(self.E, _lift(self)) + o

    __radd__ = __add__

    def __repr__(self):
        return f"SymBool({self.e})"


class SymInt:
    __slots__ = ("E", "e")

    def __init__(self, E, e):
        self.E = E
        self.e = e

    def _b(self, o, f):
        try:
            oe = _lift(o)
        except TypeError:
            return NotImplemented
        return SymInt(self.E, z3.simplify(f(self.e, oe)))

    def _c(self, o, f):
        try:
            oe = _lift(o)
        except TypeError:
            return NotImplemented
        return SymBool(self.E, z3.simplify(f(self.e, oe)))

    def __add__(self, o): return self._b(o, lambda a, b: a + b)
    def __radd__(self, o): return self._b(o, lambda a, b: b + a)
    def __sub__(self, o): return self._b(o, lambda a, b: a - b)
    def __rsub__(self, o): return self._b(o, lambda a, b: b - a)
    def __mul__(self, o): return self._b(o, lambda a, b: a * b)
    def __rmul__(self, o): return self._b(o, lambda a, b: b * a)
    def __neg__(self): return SymInt(self.E, z3.simplify(-self.e))
    def __pos__(self): return self
    def __lt__(self, o): return self._c(o, lambda a, b: a < b)
    def __le__(self, o): return self._c(o, lambda a, b: a <= b)
    def __gt__(self, o): return self._c(o, lambda a, b: a > b)
    def __ge__(self, o): return self._c(o, lambda a, b: a >= b)
    def __eq__(self, o): return self._c(o, lambda a, b: a == b)
    def __ne__(self, o): return self._c(o, lambda a, b: a != b)

    def __bool__(self):
        if z3.is_int_value(self.e):
            return self.e.as_long() != 0
        return self.E.fork(self.e != 0)

    def __index__(self):
        return self.E.realize(self.e)

    __int__ = __index__

    def __hash__(self):
        return hash(self.E.realize(self.e))

    def __repr__(self):
        return f"SymInt({self.e})"


def all_cubes(space, cube_vars, limit=100000):
    """All feasible assignments to `cube_vars` under `space` (all-SAT with
    blocking clauses).  Termination of the loop *is* the completeness query:
    space and not (cube_1 or ... or cube_k) is unsat."""
    s = z3.Solver()
    s.add(space)
    cubes = []
    while True:
        r = s.check()
        if r == z3.unsat:
            return cubes
        if r != z3.sat:
            raise HarnessError("solver answered unknown while splitting cubes")
        m = s.model()
        vals = [m.eval(v, model_completion=True).as_long() for v in cube_vars]
        cubes.append(vals)
        s.add(z3.Or([v != c for v, c in zip(cube_vars, vals)]))
        if len(cubes) > limit:
            raise HarnessError("too many cubes")

"""Input spaces as z3 constraint systems (DESIGN section 3)."""
from __future__ import annotations

import z3


# ---------------------------------------------------------------------------
# S1 - flat closed CFGs


def loop_feature(N, A, B, tag="", headers=1, entries=1, exit_targets=1, exiting=1, min_size=1, max_size=None, exit_is_cyclic=False,
                 latches=1):
    """Shape requirement handed to the solver: there is a strongly connected set L of blocks (membership L_i, root h,
    distances d_i from h and c_i to h inside L, all existentially quantified) with at least the given numbers of headers
    (members entered from outside), entries (outside blocks jumping in), exit targets (outside blocks jumped to), exiting
    members and latches (members jumping to a header); optionally an exit target that carries a self loop."""
    def edge(j, i):
        return z3.Or(A[j] == i, B[j] == i)

    L = [z3.Bool(f"L{tag}{i}") for i in range(N)]
    h = z3.Int(f"h{tag}")
    d = [z3.Int(f"d{tag}{i}") for i in range(N)]
    c = [z3.Int(f"c{tag}{i}") for i in range(N)]
    cs = [h >= 0, h < N]
    for i in range(N):
        cs += [d[i] >= 0, d[i] < N, c[i] >= 0, c[i] < N]
        cs.append(z3.Implies(h == i, z3.And(L[i], d[i] == 0, c[i] == 0, z3.Or([z3.And(L[j], edge(j, i)) for j in range(N)]))))
        cs.append(z3.Implies(z3.And(L[i], h != i), z3.And(
            z3.Or([z3.And(L[j], edge(j, i), d[j] < d[i]) for j in range(N) if j != i]),
            z3.Or([z3.And(L[t], edge(i, t), c[t] < c[i]) for t in range(N) if t != i]))))

    def one(b):
        return z3.If(b, 1, 0)

    hdr = [z3.And(L[i], z3.Or([z3.And(z3.Not(L[j]), edge(j, i)) for j in range(N) if j != i])) for i in range(N)]
    ent = [z3.And(z3.Not(L[j]), z3.Or([z3.And(L[i], edge(j, i)) for i in range(N) if i != j])) for j in range(N)]
    ext = [z3.And(z3.Not(L[t]), z3.Or([z3.And(L[i], edge(i, t)) for i in range(N) if i != t])) for t in range(N)]
    exg = [z3.And(L[i], z3.Or([z3.And(z3.Not(L[t]), edge(i, t)) for t in range(N) if t != i])) for i in range(N)]
    lat = [z3.And(L[i], z3.Or([z3.And(hdr[t], edge(i, t)) for t in range(N)])) for i in range(N)]
    cs.append(z3.Sum([one(x) for x in hdr]) >= headers)
    cs.append(z3.Sum([one(x) for x in ent]) >= entries)
    cs.append(z3.Sum([one(x) for x in ext]) >= exit_targets)
    cs.append(z3.Sum([one(x) for x in exg]) >= exiting)
    cs.append(z3.Sum([one(x) for x in lat]) >= latches)
    cs.append(z3.Sum([one(x) for x in L]) >= min_size)
    if max_size:
        cs.append(z3.Sum([one(x) for x in L]) <= max_size)
    if exit_is_cyclic:
        cs.append(z3.Or([z3.And(ext[t], edge(t, t)) for t in range(N)]))
    return z3.And(cs)


def s1_space(N: int, entry: int | None = None, max_edges: int | None = None, skeleton=None, tag: str = "", dag: bool = False, require_edges=None,
             features=None):
    """Closed CFG over N blocks.

    Block i has ordered successor slots a_i, b_i in {-1, 0..N-1}; -1 = absent,
    a_i = -1 => b_i = -1, b_i != -1 => a_i != b_i.  Closed: the entry e has no
    predecessor, every other block has a predecessor of smaller rank
    (reachable from e), every non-exit block has a successor of smaller
    co-rank (can reach an exit).  `entry` fixes e; otherwise e is a variable, so
    that all labellings (name orders) are covered.
    Returns (formula, cube_vars, aux) with aux = dict(N, A, B, e).
    """
    A = [z3.Int(f"a{tag}{i}") for i in range(N)]
    B = [z3.Int(f"b{tag}{i}") for i in range(N)]
    e = z3.Int(f"e{tag}")
    r = [z3.Int(f"r{tag}{i}") for i in range(N)]
    q = [z3.Int(f"q{tag}{i}") for i in range(N)]
    cs = []
    for i in range(N):
        cs += [A[i] >= -1, A[i] < N, B[i] >= -1, B[i] < N]
        cs += [z3.Implies(A[i] == -1, B[i] == -1), z3.Implies(B[i] != -1, A[i] != B[i])]

    def edge(j, i):
        return z3.Or(A[j] == i, B[j] == i)

    cs += [e >= 0, e < N]
    if entry is not None:
        cs.append(e == entry)
    for i in range(N):
        is_e = e == i
        cs += [r[i] >= 0, r[i] < N, q[i] >= 0, q[i] < N]
        # entry: rank 0 and no predecessor at all
        cs.append(z3.Implies(is_e, z3.And([r[i] == 0] + [z3.Not(edge(j, i)) for j in range(N)])))
        # others: some predecessor of smaller rank
        cs.append(
            z3.Implies(
                z3.Not(is_e),
                z3.Or([z3.And(edge(j, i), r[j] < r[i]) for j in range(N) if j != i]),
            )
        )
        # non-exit blocks reach an exit
        cs.append(
            z3.Or(
                A[i] == -1,
                z3.Or([z3.And(edge(i, s), q[s] < q[i]) for s in range(N) if s != i]),
            )
        )
    if dag:
        # forward edges only (a topological labelling): acyclic graphs, many more edges affordable
        for i in range(N):
            cs += [z3.Or(A[i] == -1, A[i] > i), z3.Or(B[i] == -1, B[i] > i)]
    if max_edges is not None:
        cnt = z3.Sum([z3.If(A[i] != -1, 1, 0) + z3.If(B[i] != -1, 1, 0) for i in range(N)])
        cs.append(cnt <= max_edges)
    if skeleton is not None:
        # Hamiltonian skeleton: perm[k] -> perm[k+1] is an edge for all k
        for k in range(len(skeleton) - 1):
            cs.append(edge(skeleton[k], skeleton[k + 1]))
    for (i, j) in (require_edges or []):
        cs.append(edge(i, j))
    for k, f in enumerate(features if isinstance(features, list) else ([features] if features else [])):
        cs.append(loop_feature(N, A, B, tag=f"{tag}f{k}_", **f))
    aux = {"N": N, "A": A, "B": B, "e": e}
    cube_vars = [e, A[0], B[0], A[1], B[1]] if N >= 4 else [e, A[0]]
    if require_edges and N >= 6:
        cube_vars = [A[3], B[3], A[4], B[4]]
    return z3.And(cs), cube_vars, aux


def realise_s1(E, aux, prefix="b"):
    """Realise the graph of the current path: names b0..b{N-1}."""
    N = aux["N"]
    names = [f"{prefix}{i}" for i in range(N)]
    E.realize(aux["e"])
    succ = []
    for i in range(N):
        a = E.realize(aux["A"][i])
        b = E.realize(aux["B"][i])
        succ.append([names[t] for t in (a, b) if t != -1])
    return {"names": names, "succ": succ}


def brute_count_s1(N: int, entry: int | None = 0) -> int:
    """Independent count of closed CFGs (no solver): used as engine self-test."""
    import itertools

    opts = [()] + [(a,) for a in range(N)] + [(a, b) for a in range(N) for b in range(N) if a != b]
    cnt = 0
    entries = range(N) if entry is None else [entry]
    for succ in itertools.product(opts, repeat=N):
        preds = [set() for _ in range(N)]
        for i, s in enumerate(succ):
            for t in s:
                preds[t].add(i)
        nopred = [i for i in range(N) if not preds[i]]
        if len(nopred) != 1 or nopred[0] not in entries:
            continue
        e = nopred[0]
        seen = {e}
        st = [e]
        while st:
            x = st.pop()
            for y in succ[x]:
                if y not in seen:
                    seen.add(y)
                    st.append(y)
        if len(seen) != N:
            continue
        # every block reaches an exit
        ok = {i for i in range(N) if not succ[i]}
        changed = True
        while changed:
            changed = False
            for i in range(N):
                if i not in ok and any(t in ok for t in succ[i]):
                    ok.add(i)
                    changed = True
        if len(ok) == N:
            cnt += 1
    return cnt


# ---------------------------------------------------------------------------
# S4 - arbitrary digraphs for the query functions


def s4_space(N: int, K: int, max_edges: int | None = None, backedges: bool = False):
    """N blocks n0.. plus the external name `ext`; K target slots per block with
    values in {-1 (absent), 0..N-1, N (= ext)}, absent slots last; duplicates
    and self loops allowed."""
    T = [[z3.Int(f"t{i}_{k}") for k in range(K)] for i in range(N)]
    cs = []
    for i in range(N):
        for k in range(K):
            cs += [T[i][k] >= -1, T[i][k] <= N]
            if k:
                cs.append(z3.Implies(T[i][k - 1] == -1, T[i][k] == -1))
    if max_edges is not None:
        cs.append(z3.Sum([z3.If(T[i][k] != -1, 1, 0) for i in range(N) for k in range(K)]) <= max_edges)
    cube_vars = [T[0][0], T[0][1]] if K >= 2 else [T[0][0]]
    if N >= 2:
        cube_vars = cube_vars + [T[1][0]]
    aux = {"N": N, "K": K, "T": T}
    if backedges:
        # BE[i] = k: the name in slot k of block i is declared a back edge (every occurrence of that name then is one)
        BE = [z3.Int(f"be{i}") for i in range(N)]
        for i in range(N):
            cs += [BE[i] >= -1, BE[i] < K]
            for k in range(K):
                cs.append(z3.Implies(BE[i] == k, T[i][k] != -1))
                # canonical: the first slot that holds the name
                for k2 in range(k):
                    cs.append(z3.Implies(BE[i] == k, T[i][k2] != T[i][k]))
        aux["BE"] = BE
    return z3.And(cs), cube_vars, aux


def realise_s4(E, aux):
    N, K, T = aux["N"], aux["K"], aux["T"]
    names = [f"n{i}" for i in range(N)] + ["ext"]
    tg = []
    for i in range(N):
        row = [E.realize(T[i][k]) for k in range(K)]
        tg.append([names[t] for t in row if t != -1])
    desc = {"names": names[:N], "targets": tg}
    if "BE" in aux:
        be = [E.realize(b) for b in aux["BE"]]
        desc["backedges"] = [[tg[i][b]] if b >= 0 else [] for i, b in enumerate(be)]
    return desc


# ---------------------------------------------------------------------------
# S4b - hand-built graphs: ordered distinct targets inside the graph, optional declared back edge per block


def s4b_space(N: int, K: int = 2):
    T = [[z3.Int(f"t{i}_{k}") for k in range(K)] for i in range(N)]
    BE = [z3.Int(f"be{i}") for i in range(N)]
    cs = []
    for i in range(N):
        for k in range(K):
            cs += [T[i][k] >= -1, T[i][k] < N]
            if k:
                cs.append(z3.Implies(T[i][k - 1] == -1, T[i][k] == -1))
                cs.append(z3.Implies(T[i][k] != -1, T[i][k] != T[i][k - 1]))
        cs += [BE[i] >= -1, BE[i] < K]
        for k in range(K):
            cs.append(z3.Implies(BE[i] == k, T[i][k] != -1))
    # a second declared back edge (recorded after the first one, whatever the order of the targets)
    BE2 = [z3.Int(f"be2_{i}") for i in range(N)]
    for i in range(N):
        cs += [BE2[i] >= -1, BE2[i] < K, z3.Implies(BE[i] == -1, BE2[i] == -1), z3.Implies(BE2[i] != -1, BE2[i] != BE[i])]
        for k in range(K):
            cs.append(z3.Implies(BE2[i] == k, T[i][k] != -1))
    return z3.And(cs), [T[0][0], T[0][1], BE[0]] + ([T[1][0]] if N > 1 else []), {"N": N, "K": K, "T": T, "BE": BE, "BE2": BE2}


def realise_s4b(E, aux):
    N, K = aux["N"], aux["K"]
    names = [f"n{i}" for i in range(N)]
    tg, be = [], []
    for i in range(N):
        row = [E.realize(aux["T"][i][k]) for k in range(K)]
        tg.append([names[t] for t in row if t != -1])
        be.append(E.realize(aux["BE"][i]))
    be2 = [E.realize(b) for b in aux["BE2"]] if "BE2" in aux else [-1] * N
    return {"kind": "handbuilt", "names": names, "targets": tg, "backedge": be, "backedge2": be2}


def build_s4b(desc):
    from numba_scfg.core.datastructures.scfg import SCFG
    from numba_scfg.core.datastructures.basic_block import BasicBlock

    b2 = desc.get("backedge2") or [-1] * len(desc["names"])
    return SCFG({n: BasicBlock(n, tuple(t), ((t[b],) if b >= 0 else ()) + ((t[c],) if c >= 0 else ()))
                 for n, t, b, c in zip(desc["names"], desc["targets"], desc["backedge"], b2)})

"""ASTSMT - merged source-to-SMT translation for leaf kernels (DESIGN 2.2).

Translates a small, loop-free method from /repo's CURRENT source (inspect +
ast) into z3 terms with If-merged branches.  Supported subset: names, str/int
constants, `+` on str/int, `str(x)`, `k in d.keys()` / `k in d`, dict subscript
read and write on `self.<attr>`, if/else, return.  Anything else raises
Unsupported and the obligation is reported inconclusive (never an alarm).
"""
from __future__ import annotations

import ast
import inspect
import textwrap

import z3


class Unsupported(Exception):
    pass


class DictModel:
    """a symbolic dict str -> int: membership array and value array"""

    def __init__(self, has, val):
        self.has = has
        self.val = val


class Translator:
    def __init__(self, func, render):
        self.render = render  # Int term -> String term (model of str(int))
        src = textwrap.dedent(inspect.getsource(func))
        self.fn = ast.parse(src).body[0]
        if not isinstance(self.fn, ast.FunctionDef):
            raise Unsupported("not a function")
        self.src = src

    def run(self, args: dict, attrs: dict):
        """args: parameter name -> z3 term; attrs: self.<attr> -> DictModel.
        returns (returned term, attrs after)"""
        env = dict(args)
        state = {k: DictModel(v.has, v.val) for k, v in attrs.items()}
        ret = self.block(self.fn.body, env, state)
        if ret is None:
            raise Unsupported("no return on some path")
        return ret, state

    # -- statements ------------------------------------------------------
    def block(self, body, env, state):
        for i, st in enumerate(body):
            if isinstance(st, ast.Expr) and isinstance(st.value, ast.Constant) and isinstance(st.value.value, str):
                continue  # docstring
            if isinstance(st, ast.Assign):
                if len(st.targets) != 1:
                    raise Unsupported("multiple targets")
                tgt = st.targets[0]
                val = self.expr(st.value, env, state)
                if isinstance(tgt, ast.Name):
                    env[tgt.id] = val
                elif isinstance(tgt, ast.Subscript):
                    d = self.attr(tgt.value, state)
                    key = self.expr(tgt.slice, env, state)
                    d.val = z3.Store(d.val, key, val)
                    d.has = z3.Store(d.has, key, z3.BoolVal(True))
                else:
                    raise Unsupported(ast.dump(tgt))
            elif isinstance(st, ast.If):
                c = self.cond(st.test, env, state)
                e1, s1 = dict(env), {k: DictModel(v.has, v.val) for k, v in state.items()}
                e2, s2 = dict(env), {k: DictModel(v.has, v.val) for k, v in state.items()}
                r1 = self.block(st.body, e1, s1)
                r2 = self.block(st.orelse, e2, s2)
                if (r1 is None) != (r2 is None):
                    raise Unsupported("return on one arm only")
                if r1 is not None:
                    # both arms return: merge state and value, nothing follows
                    for k in state:
                        state[k].has = z3.If(c, s1[k].has, s2[k].has)
                        state[k].val = z3.If(c, s1[k].val, s2[k].val)
                    return z3.If(c, r1, r2)
                for k in set(e1) | set(e2):
                    if k in e1 and k in e2:
                        env[k] = e1[k] if e1[k].eq(e2[k]) else z3.If(c, e1[k], e2[k])
                for k in state:
                    state[k].has = z3.If(c, s1[k].has, s2[k].has)
                    state[k].val = z3.If(c, s1[k].val, s2[k].val)
            elif isinstance(st, ast.Return):
                if st.value is None:
                    raise Unsupported("bare return")
                return self.expr(st.value, env, state)
            else:
                raise Unsupported(type(st).__name__)
        return None

    def attr(self, node, state):
        if isinstance(node, ast.Attribute) and isinstance(node.value, ast.Name) and node.value.id == "self" and node.attr in state:
            return state[node.attr]
        raise Unsupported(ast.dump(node))

    def cond(self, node, env, state):
        if isinstance(node, ast.Compare) and len(node.ops) == 1 and isinstance(node.ops[0], (ast.In, ast.NotIn)):
            key = self.expr(node.left, env, state)
            c = node.comparators[0]
            if isinstance(c, ast.Call) and isinstance(c.func, ast.Attribute) and c.func.attr == "keys" and not c.args:
                d = self.attr(c.func.value, state)
            else:
                d = self.attr(c, state)
            t = z3.Select(d.has, key)
            return z3.Not(t) if isinstance(node.ops[0], ast.NotIn) else t
        raise Unsupported(ast.dump(node))

    def expr(self, node, env, state):
        if isinstance(node, ast.Name):
            if node.id in env:
                return env[node.id]
            raise Unsupported("unbound " + node.id)
        if isinstance(node, ast.Constant):
            if isinstance(node.value, str):
                return z3.StringVal(node.value)
            if isinstance(node.value, int) and not isinstance(node.value, bool):
                return z3.IntVal(node.value)
            raise Unsupported(repr(node.value))
        if isinstance(node, ast.BinOp) and isinstance(node.op, ast.Add):
            a = self.expr(node.left, env, state)
            b = self.expr(node.right, env, state)
            if z3.is_string(a) and z3.is_string(b):
                return z3.Concat(a, b)
            if z3.is_int(a) and z3.is_int(b):
                return a + b
            raise Unsupported("mixed +")
        if isinstance(node, ast.Call) and isinstance(node.func, ast.Name) and node.func.id == "str" and len(node.args) == 1:
            a = self.expr(node.args[0], env, state)
            if z3.is_string(a):
                return a
            if z3.is_int(a):
                return self.render(a)
            raise Unsupported("str() of " + str(a.sort()))
        if isinstance(node, ast.Subscript):
            d = self.attr(node.value, state)
            return z3.Select(d.val, self.expr(node.slice, env, state))
        if isinstance(node, ast.JoinedStr):
            parts = []
            for v in node.values:
                if isinstance(v, ast.Constant):
                    parts.append(z3.StringVal(v.value))
                elif isinstance(v, ast.FormattedValue) and v.conversion == -1 and v.format_spec is None:
                    a = self.expr(v.value, env, state)
                    parts.append(a if z3.is_string(a) else self.render(a))
                else:
                    raise Unsupported("f-string form")
            return z3.Concat(*parts) if len(parts) > 1 else parts[0]
        raise Unsupported(type(node).__name__)

"""Engine-free, hook-free: canonical dump of one input under the interpreter's
real hash seed (run as a subprocess with PYTHONHASHSEED set).  Prints a sha1."""
import hashlib
import json
import logging
import sys


def dump(g):
    from numba_scfg.core.datastructures.basic_block import RegionBlock

    out = []
    for n, b in g.graph.items():
        rec = [n, type(b).__name__, list(b._jump_targets), list(b.backedges)]
        for f in ("begin", "end", "variable"):
            if hasattr(b, f):
                rec.append([f, getattr(b, f)])
        if hasattr(b, "variable_assignment"):
            rec.append(["assign", [[k, v] for k, v in b.variable_assignment.items()]])
        if hasattr(b, "branch_value_table"):
            rec.append(["table", [[k, v] for k, v in b.branch_value_table.items()]])
        if isinstance(b, RegionBlock):
            rec.append(["region", b.kind, b.header, b.exiting, getattr(b.parent_region, "name", None), dump(b.subregion)])
        out.append(rec)
    return out


def compute(desc):
    import ast

    kind = desc["kind"]
    if kind == "graph":
        from numba_scfg.core.datastructures.scfg import SCFG
        from numba_scfg.core.datastructures.basic_block import BasicBlock

        g = SCFG({n: BasicBlock(n, tuple(s)) for n, s in zip(desc["names"], desc["succ"])})
        for st in desc.get("stages", ["restructure"]):
            getattr(g, st)()
        out = [dump(g), list(g.name_gen.kinds.items())]
        # writer / reader: dictionary (insertion order included), YAML text, re-read graph
        d = g.to_dict()
        out.append(json.dumps(d, sort_keys=False, default=str))
        out.append(g.to_yaml())
        g2, _ = SCFG.from_dict(d)
        out.append(dump(g2))
        return json.dumps(out)
    if kind == "source":
        from numba_scfg.core.datastructures.ast_transforms import AST2SCFG, SCFG2AST

        g = AST2SCFG(desc["src"])
        d0 = dump_ast(g)
        g.restructure()
        d1 = dump(g)
        try:
            text = ast.unparse(SCFG2AST(desc["src"], g))
        except NotImplementedError:
            text = "<refused>"
        return json.dumps([d0, d1, list(g.name_gen.kinds.items()), text])
    if kind == "bytecode":
        from numba_scfg.core.datastructures.byte_flow import ByteFlow

        ns = {}
        exec(compile(desc["src"], "<seedrun>", "exec"), ns)
        g = ByteFlow.from_bytecode(ns["f"]).scfg
        d0 = dump(g)
        g.restructure()
        return json.dumps([d0, dump(g), list(g.name_gen.kinds.items())])
    raise ValueError(kind)


def dump_ast(g):
    import ast

    return [[n, list(b._jump_targets), [ast.unparse(t) for t in b.tree]] for n, b in g.graph.items()]


if __name__ == "__main__":
    logging.disable(logging.CRITICAL)
    desc = json.loads(sys.argv[1])
    try:
        s = compute(desc)
    except Exception as e:
        s = "EXC:" + type(e).__name__
    print(hashlib.sha1(s.encode()).hexdigest())

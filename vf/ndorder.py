"""Iteration order of string sets as a schedule (DESIGN 2.3).

The numba_scfg modules are imported FROM /repo's SOURCE through an import hook
that rewrites only iteration sites: `for .. in E`, comprehension generators,
iter/list/tuple/enumerate/deque/next/dict.fromkeys(E), .extend/.update(E),
E.pop(), unpacking, zip/map/filter/reduce(.., E), sorted/min/max(E, key=..)
(equal keys keep iteration order).  E is passed through a helper that, when E is a set/frozenset with
>= 2 members not all integers, returns its members in the order the current
schedule prescribes for this dynamic event; otherwise E is returned untouched.
"""
from __future__ import annotations

import ast
import importlib.abc
import importlib.machinery
import itertools
import sys

EVENTS: list = []  # sizes of the perturbable events of the current run
SITES: list = []  # (module, lineno) per event
PLAN: dict = {}  # event index -> mode | "*" -> mode for every event
ACTIVE = [False]


def _order(base, mode):
    if mode == "asc":
        return base
    if mode == "desc":
        return base[::-1]
    if mode == "rot":
        return base[1:] + base[:1]
    if isinstance(mode, int):  # index into the permutations of a small set
        return list(list(itertools.permutations(base))[mode % _fact(len(base))])
    return base


def _fact(n):
    r = 1
    for i in range(2, n + 1):
        r *= i
    return r


def nd_iter_(x, site=None):
    if ACTIVE[0] and type(x) in (set, frozenset) and len(x) >= 2 and any(not isinstance(e, int) for e in x):
        k = len(EVENTS)
        base = sorted(x, key=repr)
        mode = PLAN.get(k, PLAN.get("*", "asc"))
        EVENTS.append(len(base))
        SITES.append(site)
        return _order(base, mode)
    return x


def nd_pop_(x, *a):
    if type(x) is set and not a:
        v = nd_iter_(x, "pop")
        if v is x:
            return x.pop()
        e = v[0]
        x.discard(e)
        return e
    return x.pop(*a)


class _T(ast.NodeTransformer):
    def __init__(self, modname):
        self.modname = modname

    def _w(self, e):
        site = ast.Constant(f"{self.modname}:{getattr(e, 'lineno', 0)}")
        return ast.copy_location(ast.Call(ast.Name("nd_iter_", ast.Load()), [e, site], []), e)

    def visit_For(self, n):
        self.generic_visit(n)
        n.iter = self._w(n.iter)
        return n

    def visit_comprehension(self, n):
        self.generic_visit(n)
        n.iter = self._w(n.iter)
        return n

    def visit_Starred(self, n):
        # [*E], (a, *E), f(*E): unpacking iterates E
        self.generic_visit(n)
        if isinstance(n.ctx, ast.Load):
            n.value = self._w(n.value)
        return n

    def visit_Assign(self, n):
        # a, b = E  iterates E
        self.generic_visit(n)
        if any(isinstance(t, (ast.Tuple, ast.List)) for t in n.targets) and not isinstance(n.value, (ast.Tuple, ast.List)):
            n.value = self._w(n.value)
        return n

    ITER_FUNCS = ("iter", "list", "tuple", "enumerate", "deque", "next", "zip", "map", "filter", "reversed", "chain", "dict", "OrderedDict")
    ITER_METHODS = ("extend", "update", "fromkeys", "join", "from_iterable", "extendleft")

    def visit_Call(self, n):
        self.generic_visit(n)

        def wrapped(a):
            return isinstance(a, ast.Call) and isinstance(a.func, ast.Name) and a.func.id == "nd_iter_"

        if isinstance(n.func, ast.Name) and n.func.id in self.ITER_FUNCS and n.args:
            first = 1 if n.func.id in ("map", "filter") else 0
            for i in range(first, len(n.args)):
                if not wrapped(n.args[i]) and not isinstance(n.args[i], ast.Starred):
                    n.args[i] = self._w(n.args[i])
                if n.func.id not in ("zip", "map", "chain"):
                    break
        fname = n.func.id if isinstance(n.func, ast.Name) else (n.func.attr if isinstance(n.func, ast.Attribute) else None)
        # sorted / min / max WITH a key function: members with equal keys keep the order of the iteration
        if fname in ("sorted", "min", "max", "nsmallest", "nlargest") and n.args and any(k.arg == "key" for k in n.keywords):
            i = 1 if fname in ("nsmallest", "nlargest") and len(n.args) > 1 else 0
            if not wrapped(n.args[i]) and not isinstance(n.args[i], ast.Starred):
                n.args[i] = self._w(n.args[i])
        # reduce(f, E): folds in iteration order
        if fname == "reduce" and len(n.args) >= 2 and not wrapped(n.args[1]):
            n.args[1] = self._w(n.args[1])
        if isinstance(n.func, ast.Attribute) and n.func.attr in self.ITER_METHODS and n.args and not wrapped(n.args[0]):
            n.args[0] = self._w(n.args[0])
        if isinstance(n.func, ast.Attribute) and n.func.attr == "pop":
            return ast.copy_location(ast.Call(ast.Name("nd_pop_", ast.Load()), [n.func.value] + n.args, []), n)
        return n


class _Loader(importlib.machinery.SourceFileLoader):
    def source_to_code(self, data, path, *, _optimize=-1):
        tree = _T(self.name).visit(ast.parse(data))
        ast.fix_missing_locations(tree)
        return compile(tree, path, "exec", dont_inherit=True, optimize=_optimize)

    def get_code(self, fullname):
        # never use cached byte code: always recompile from the current source
        data = self.get_data(self.get_filename(fullname))
        return self.source_to_code(data, self.get_filename(fullname))

    def exec_module(self, m):
        m.__dict__["nd_iter_"] = nd_iter_
        m.__dict__["nd_pop_"] = nd_pop_
        super().exec_module(m)


class _Finder(importlib.abc.MetaPathFinder):
    def find_spec(self, name, path, target=None):
        if not name.startswith("numba_scfg") or ".tests" in name:
            return None
        spec = importlib.machinery.PathFinder.find_spec(name, path)
        if spec and spec.origin and spec.origin.endswith(".py"):
            spec.loader = _Loader(name, spec.origin)
        return spec


_installed = [False]


def install():
    if _installed[0]:
        return
    already = [m for m in sys.modules if m.startswith("numba_scfg")]
    if already:
        raise RuntimeError("ndorder.install() must run before numba_scfg is imported: " + ", ".join(already[:3]))
    sys.meta_path.insert(0, _Finder())
    _installed[0] = True


def run_with(plan, fn):
    """run fn() under a schedule; returns (result, number of events, sites)"""
    EVENTS.clear()
    SITES.clear()
    PLAN.clear()
    PLAN.update(plan)
    ACTIVE[0] = True
    try:
        r = fn()
    finally:
        ACTIVE[0] = False
    return r, list(EVENTS), list(SITES)

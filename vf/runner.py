"""Parallel driver: cubes -> workers -> aggregation -> replay -> evidence.

A property module (vf.props.Cxx) exposes

    PROPERTY = "Cxx"; LEVEL = "model_checking" | "translation_validation" | ...
    def jobs(tier) -> list[Job]
    def replay(desc) -> list[Failure-dict]     # engine-free, proxies-free
    FUNCTIONS = ["numba_scfg....qualified.name", ...]
    ASSUMPTIONS = [...]

and a Job bundles a z3 input space, the variables to split into cubes, and a
harness(engine, ctx) that reports through ctx.fail / ctx.feature / ctx.sample.
"""
from __future__ import annotations

import hashlib
import importlib
import inspect
import json
import multiprocessing as mp
import os
import subprocess
import sys
import time
import traceback
from collections import Counter
from dataclasses import dataclass, field
from typing import Any, Callable

VERIF = os.path.dirname(os.path.dirname(os.path.abspath(__file__)))
NPROC = int(os.environ.get("VERIF_NPROC", "16"))
EXIT_HARNESS_ERROR = 2
TWIN = bool(os.environ.get("VERIF_TWIN"))


@dataclass
class Job:
    name: str
    space: Callable[[], tuple]  # () -> (z3 formula | None, cube_vars, aux)
    harness: Callable[[Any, "Ctx", Any], None]  # (engine, ctx, aux)
    bounds: dict = field(default_factory=dict)
    budget_s: float = 600.0
    path_timeout_s: float = 10.0
    expect_paths: int | None = None  # self-test: exact number of paths expected
    cubes_fn: Callable | None = None  # alternative to cube_vars: () -> list of opaque cubes (ctx.cube)
    required: bool = True  # False: budgeted family, may end non-exhaustive


_RECENT: list = []


class Ctx:
    """Per-cube collector handed to harnesses."""

    MAX_FAIL_PER_SIG = 3

    def __init__(self):
        self.failures: dict[str, list] = {}
        self.fail_counts: Counter = Counter()
        self.features: Counter = Counter()
        self.samples: list = []
        self.nontrivial = 0
        self.evaluations = 0
        self.extra: Counter = Counter()
        self.recent = _RECENT  # per worker process, across cubes
        self._current = None

    HISTORY = 30

    @property
    def current(self):
        return self._current

    @current.setter
    def current(self, desc):
        # inputs handled earlier by this process: a failure that needs that history (state kept by the
        # library between calls) is replayed with it when it does not reproduce on its own
        if getattr(self, "_current", None) is not None:
            self.recent.append(self._current)
            if len(self.recent) > self.HISTORY:
                del self.recent[0]
        self._current = desc

    def fail(self, kind: str, signature: str, desc: dict, detail: str = ""):
        self.fail_counts[signature] += 1
        lst = self.failures.setdefault(signature, [])
        if len(lst) < self.MAX_FAIL_PER_SIG:
            lst.append({"kind": kind, "signature": signature, "input": desc, "detail": detail[:600], "history": list(self.recent)})

    def feature(self, name: str, n: int = 1):
        self.features[name] += n

    def sample(self, desc, cap=2):
        if len(self.samples) < cap:
            self.samples.append(desc)


_WCACHE: dict = {}


def _get_job(pid, tier, jidx):
    key = (pid, tier, jidx)
    if key not in _WCACHE:
        mod = importlib.import_module(f"vf.props.{pid}")
        job = mod.jobs(tier)[jidx]
        formula, cube_vars, aux = job.space()
        _WCACHE[key] = (job, formula, cube_vars, aux)
    return _WCACHE[key]


def _w_cubes(args):
    pid, tier, jidx = args
    import logging

    logging.disable(logging.CRITICAL)
    from vf.engine import all_cubes
    import z3

    job, formula, cube_vars, aux = _get_job(pid, tier, jidx)
    if getattr(job, "cubes_fn", None) is not None:
        return job.cubes_fn()
    if not cube_vars:
        return [[]]
    return all_cubes(formula if formula is not None else z3.BoolVal(True), cube_vars)


def _w_explore(args):
    pid, tier, jidx, cube, deadline = args
    import logging

    logging.disable(logging.CRITICAL)
    import z3
    from vf.engine import Engine, HarnessError

    t0 = time.time()
    job, formula, cube_vars, aux = _get_job(pid, tier, jidx)
    ctx = Ctx()
    E = Engine(path_timeout_s=job.path_timeout_s)
    pre = []
    if formula is not None:
        pre.append(formula)
    if getattr(job, "cubes_fn", None) is not None:
        ctx.cube = cube
    else:
        pre += [v == c for v, c in zip(cube_vars, cube)]
    pre_f = z3.And(pre) if pre else None

    def h(E):
        if pre_f is not None:
            E.assume(pre_f)
        job.harness(E, ctx, aux)
        if TWIN:
            # reachability twin (DESIGN 6.2): the oracle position is replaced by `assert False`
            ctx.fail_counts["twin:assert-false"] += 1

    def on_timeout(E):
        ctx.extra["path_timeouts"] += 1
        cur = getattr(ctx, "current", None)
        if cur is not None:
            ctx.fail("timeout", "non-termination", cur, "path exceeded the wall-clock budget twice (1x and 10x)")

    err = None
    exhausted = False
    try:
        if time.time() < deadline:
            exhausted = E.explore(h, deadline=deadline, on_timeout=on_timeout)
    except HarnessError as e:
        err = "HarnessError: " + str(e)
    except Exception:
        err = traceback.format_exc()
    return {
        "cube": cube,
        "exhausted": exhausted,
        "stats": E.stats(),
        "failures": ctx.failures,
        "fail_counts": dict(ctx.fail_counts),
        "features": dict(ctx.features),
        "samples": ctx.samples,
        "nontrivial": ctx.nontrivial,
        "evaluations": ctx.evaluations,
        "extra": dict(ctx.extra),
        "error": err,
        "wall": time.time() - t0,
    }


def load_findings():
    p = os.path.join(VERIF, "known_findings.json")
    if not os.path.exists(p):
        return []
    with open(p) as f:
        return json.load(f)["findings"]


def source_hashes(function_names):
    out = {}
    for qn in function_names:
        try:
            modname, _, attr = qn.partition(":")
            obj = importlib.import_module(modname)
            for part in attr.split("."):
                obj = getattr(obj, part)
            if isinstance(obj, property):
                obj = obj.fget
            src = inspect.getsource(obj)
            out[qn] = hashlib.sha1(src.encode()).hexdigest()[:12]
        except Exception as e:  # a refactor renamed it: report, do not fail
            out[qn] = f"unresolved ({type(e).__name__})"
    return out


def run_replay_file(path, with_history=False):
    """Replay in a fresh interpreter without engine / proxies / hooks."""
    cmd = [sys.executable, "-m", "vf.main", "--replay-with-history" if with_history else "--replay", path]
    env = dict(os.environ)
    env["PYTHONPATH"] = VERIF + os.pathsep + env.get("PYTHONPATH", "")
    env["PYTHONDONTWRITEBYTECODE"] = "1"
    try:
        r = subprocess.run(cmd, capture_output=True, text=True, timeout=600, env=env, cwd=VERIF)
    except subprocess.TimeoutExpired:
        return "TIMEOUT", []
    sigs = []
    status = "NOT-REPRODUCED"
    for line in r.stdout.splitlines():
        if line.startswith("REPLAY-RESULT "):
            obj = json.loads(line[len("REPLAY-RESULT "):])
            status = obj["status"]
            sigs = obj["signatures"]
    if r.returncode not in (0, 1):
        status = "REPLAY-ERROR: " + (r.stderr.strip().splitlines()[-1] if r.stderr.strip() else str(r.returncode))
    return status, sigs


def run_property(pid: str, tier: str) -> int:
    t_start = time.time()
    seed = int(os.environ.get("VERIF_SEED", "0") or 0)
    mod = importlib.import_module(f"vf.props.{pid}")
    jobs = mod.jobs(tier)
    only = os.environ.get("VERIF_ONLY_JOB")
    total = Counter()
    features = Counter()
    extra = Counter()
    samples = []
    failures: dict[str, list] = {}
    fail_counts = Counter()
    job_reports = []
    harness_errors = []
    exhaustive_all = True
    nontrivial = 0
    evaluations = 0

    _known_sigs = {f["signature"] for f in load_findings() if f["property"] == pid and f.get("status") == "known"}
    ctxm = mp.get_context("fork")
    with ctxm.Pool(NPROC) as pool:
        for jidx, job in enumerate(jobs):
            if only and job.name != only:
                continue
            if os.environ.get("VERIF_STOP_ON_FAIL") and any(sg not in _known_sigs for sg in failures):
                # development runs against seeded changes only: one failing job is enough to know the change is caught
                exhaustive_all = False
                continue
            tj = time.time()
            cubes = pool.apply(_w_cubes, ((pid, tier, jidx),))
            import random

            random.Random(seed).shuffle(cubes)
            deadline = time.time() + job.budget_s
            results = pool.imap_unordered(
                _w_explore, [(pid, tier, jidx, c, deadline) for c in cubes], chunksize=1
            )
            jstats = Counter()
            jexh = True
            jpaths = 0
            for r in results:
                for k, v in r["stats"].items():
                    jstats[k] += v
                if not r["exhausted"]:
                    jexh = False
                if r["error"]:
                    harness_errors.append(f"{job.name} cube {r['cube']}: {r['error']}")
                for sig, lst in r["failures"].items():
                    cur = failures.setdefault(sig, [])
                    for f in lst:
                        f["job"] = job.name
                        if len(cur) < 3:
                            cur.append(f)
                for sig, n in r["fail_counts"].items():
                    fail_counts[sig] += n
                for k, v in r["features"].items():
                    features[k] += v
                for k, v in r["extra"].items():
                    extra[k] += v
                for s in r["samples"]:
                    if len(samples) < 8 and (len([x for x in samples if x.get("job") == job.name]) < 3):
                        if isinstance(s, dict):
                            s = dict(s)
                            s["job"] = job.name
                        samples.append(s)
                nontrivial += r["nontrivial"]
                evaluations += r["evaluations"]
            if jstats["unknown_open"]:
                jexh = False
            if job.expect_paths is not None and jexh and jstats["paths"] != job.expect_paths:
                harness_errors.append(
                    f"{job.name}: self-test failed, {jstats['paths']} paths explored, "
                    f"{job.expect_paths} expected (independent count)"
                )
            if not jexh and job.required:
                exhaustive_all = False
            for k, v in jstats.items():
                total[k] += v
            job_reports.append(
                {
                    "job": job.name,
                    "bounds": job.bounds,
                    "cubes": len(cubes),
                    "exhaustive": jexh,
                    "required": job.required,
                    "paths": jstats["paths"],
                    "vacuous": jstats["vacuous"],
                    "timed_out": jstats["timed_out"],
                    "solver": {k: jstats[k] for k in ("queries", "sat", "unsat", "unknown")},
                    "solver_time_s": round(jstats["solver_time_s"], 2),
                    "wall_s": round(time.time() - tj, 2),
                }
            )
            print(
                f"[{pid}/{tier}] job {job.name}: cubes={len(cubes)} paths={jstats['paths']} "
                f"vacuous={jstats['vacuous']} exhaustive={jexh} solver_queries={jstats['queries']} "
                f"solver_time={jstats['solver_time_s']:.1f}s wall={time.time()-tj:.1f}s",
                flush=True,
            )

    if TWIN:
        n = fail_counts.get("twin:assert-false", 0)
        print(f"[{pid}/{tier}] REACHABILITY TWIN: the assert-false twin was violated on {n} of {total['paths']} paths "
              f"({'ok, the harness reaches its oracle' if n else 'VACUOUS HARNESS'})")
        return 0 if n else EXIT_HARNESS_ERROR

    # ---- triage of failures: replay, findings ---------------------------
    findings = load_findings()
    known = {f["signature"]: f for f in findings if f["property"] == pid and f.get("status") == "known"}
    os.makedirs(os.path.join(VERIF, "replays"), exist_ok=True)
    violations = []
    known_met = []
    replays_run = 0
    unreproduced = []
    unconfirmed = []
    for sig in sorted(failures):
        lst = failures[sig]
        f0 = min(lst, key=lambda f: len(json.dumps(f["input"], sort_keys=True)))
        h = hashlib.sha1(json.dumps([pid, sig, f0["input"]], sort_keys=True).encode()).hexdigest()[:10]
        path = os.path.join(VERIF, "replays", f"{pid}-{h}.json")
        with open(path, "w") as fh:
            json.dump({"property": pid, "signature": sig, "kind": f0["kind"], "input": f0["input"], "detail": f0["detail"],
                       "history": f0.get("history", [])}, fh, indent=1)
        status, sigs = run_replay_file(path)
        replays_run += 1
        if sig not in sigs and f0.get("history") and not getattr(mod, "NO_HISTORY_REPLAY", False):
            status2, sigs2 = run_replay_file(path, with_history=True)
            replays_run += 1
            if sig in sigs2:
                status, sigs = status2, sigs2
        if status == "REPRODUCED-WITH-HISTORY" and sig in sigs:
            status = "REPRODUCED"
            f0 = dict(f0, detail=f0["detail"] + " [reproduces only after the inputs recorded under 'history' were processed in the same process]")
        if status == "REPRODUCED" and sig in sigs:
            if sig in known:
                known_met.append(sig)
                print(f"KNOWN-FINDING: property={pid} {known[sig]['what']} [signature {sig}; met on {fail_counts[sig]} explored inputs]")
            else:
                violations.append((sig, path, f0))
                print(f"VIOLATION property={pid} replay={path}")
                print(f"  signature: {sig}\n  inputs failing: {fail_counts[sig]}\n  detail: {f0['detail']}\n  input: {json.dumps(f0['input'])[:600]}")
        elif status == "REPRODUCED" and getattr(mod, "UNCONFIRMED_OK", False):
            # reproduced, under another signature (e.g. another perturbed site): still a violation
            violations.append((sig, path, f0))
            print(f"VIOLATION property={pid} replay={path}")
            print(f"  signature: {sig} (replay reported {sigs})\n  detail: {f0['detail']}")
        elif status == "NOT-REPRODUCED" and getattr(mod, "UNCONFIRMED_OK", False):
            unconfirmed.append(sig)
            print(f"UNCONFIRMED (modelled schedule only, no real hash seed among those tried shows it; not reported): {sig} replay={path}")
        else:
            unreproduced.append((sig, path, status, sigs))
            print(f"UNREPRODUCED counterexample (harness error, not a violation): {sig} replay={path} status={status} got={sigs}")

    wall = time.time() - t_start
    level = getattr(mod, "LEVEL", "model_checking")
    cov = {
        "states": int(total["paths"]),
        "transitions": int(total["decisions"]),
        "traces_validated_against_impl": replays_run,
        "evaluations": int(evaluations or total["paths"]),
        "distinct_nontrivial": int(nontrivial),
        "rule": getattr(mod, "RULE", ""),
        "samples": samples[:8] if samples else [{"note": "no sample recorded"}],
        "exhaustive": bool(exhaustive_all and not harness_errors),
        "jobs": job_reports,
        "functions_executed": source_hashes(getattr(mod, "FUNCTIONS", [])),
        "solver": {
            "engine": "z3 " + _z3_version(),
            "queries": int(total["queries"]),
            "sat": int(total["sat"]),
            "unsat": int(total["unsat"]),
            "unknown": int(total["unknown"]),
            "time_s": round(total["solver_time_s"], 2),
        },
        "paths": {"explored": int(total["paths"]), "vacuous": int(total["vacuous"]), "timed_out": int(total["timed_out"])},
        "feature_counters": dict(sorted(features.items())),
        "extra": dict(sorted(extra.items())),
        "known_findings_met": known_met,
        "failure_signatures": {s: int(n) for s, n in fail_counts.items()},
        "harness_errors": harness_errors[:5],
        "unreproduced": [u[0] for u in unreproduced],
        "unconfirmed": unconfirmed,
    }
    if level == "translation_validation":
        cov["programs"] = int(features.get("programs", evaluations or total["paths"]))
        cov["disagreements_checked"] = int(extra.get("equivalence_queries", 0))
    post = getattr(mod, "post_coverage", None)
    if post is not None:
        post(cov, tier)
    ev = {
        "property_id": pid,
        "tier": tier,
        "seed": seed,
        "level": level,
        "coverage": cov,
        "assumptions": list(getattr(mod, "ASSUMPTIONS", [])),
        "wall_s": round(wall, 2),
        "violations": len(violations),
    }
    # VERIF_EVIDENCE_DIR: development only (runs against seeded changes must not overwrite the registered evidence)
    ev_dir = os.environ.get("VERIF_EVIDENCE_DIR") or os.path.join(VERIF, "evidence")
    if only and not os.environ.get("VERIF_EVIDENCE_DIR"):
        # a single-job development run must never replace the registered evidence of the full check
        ev_dir = os.path.join("/tmp", "verif_partial_evidence")
    os.makedirs(ev_dir, exist_ok=True)
    with open(os.path.join(ev_dir, f"{pid}.json"), "w") as fh:
        json.dump(ev, fh, indent=1, default=str)
        fh.write("\n")

    # vacuity guard: the harness must have reached its oracle
    vac = getattr(mod, "MIN_NONTRIVIAL", 2)
    print(
        f"[{pid}/{tier}] paths={total['paths']} nontrivial={nontrivial} exhaustive={cov['exhaustive']} "
        f"violations={len(violations)} known_findings_met={len(known_met)} wall={wall:.1f}s"
    )
    if violations:
        return 1
    if harness_errors or unreproduced:
        for e in harness_errors[:5]:
            print("HARNESS-ERROR:", e)
        return EXIT_HARNESS_ERROR
    if nontrivial < vac:
        print(f"HARNESS-ERROR: vacuous run, only {nontrivial} non-trivial inputs reached the oracle")
        return EXIT_HARNESS_ERROR
    return 0


def _z3_version():
    import z3

    return z3.get_version_string()

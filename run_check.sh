#!/bin/sh
# usage: ./run_check.sh <property id> <quick|thorough> | --replay <file>
cd "$(dirname "$0")"
if [ ! -x .venv/bin/python ]; then ./setup.sh >/dev/null || exit 3; fi
export PYTHONPATH="$PWD${PYTHONPATH:+:$PYTHONPATH}"
export PYTHONDONTWRITEBYTECODE=1
exec .venv/bin/python -m vf.main "$@"
